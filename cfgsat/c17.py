#!/usr/bin/env python3
"""C17 (partially applicable): presence logic of the crate under every feature subset.

What is decided here, by z3, for ALL 2^7 assignments of (alloc, std, x25519, p256, p384, p521,
hpke_verif) at once: each `#[cfg(..)]` of /repo/src/**/*.rs is extracted (regenerated from the
current tree on every run) together with the item it guards and its nesting, turned into a Boolean
term, and the negation of each obligation below is handed to z3; unsat = holds for every
configuration, a model = a concrete feature subset, which is replayed with cargo before it is
reported.

NOT decided here (outside solver-based checking, stated in MANIFEST/DESIGN): that rustc accepts the
crate and that the tests pass under each subset; the examples/benches.
"""
import json
import os
import re
import subprocess
import sys
import time

import z3

REPO = os.environ.get("HPKE_REPO", "/repo")
FEATURES = ["alloc", "std", "x25519", "p256", "p384", "p521"]
VARS = {f: z3.Bool("feat_" + f) for f in FEATURES}
VARS["hpke_verif"] = z3.Bool("hpke_verif")
VARS["test"] = z3.Bool("test")
VARS["docsrs"] = z3.Bool("docsrs")


# --------------------------------------------------------------------------------------------
# lexical layer: blank out comments and string/char literals (keeping offsets and newlines)
# --------------------------------------------------------------------------------------------
def blank(src):
    out = list(src)
    i, n = 0, len(src)

    def fill(a, b, keep_quotes=False):
        for k in range(a, b):
            if out[k] != "\n":
                out[k] = " "

    while i < n:
        c = src[i]
        if src.startswith("//", i):
            j = src.find("\n", i)
            j = n if j < 0 else j
            fill(i, j)
            i = j
        elif src.startswith("/*", i):
            depth, j = 1, i + 2
            while j < n and depth:
                if src.startswith("/*", j):
                    depth += 1
                    j += 2
                elif src.startswith("*/", j):
                    depth -= 1
                    j += 2
                else:
                    j += 1
            fill(i, j)
            i = j
        elif c == '"' or (c == "b" and src.startswith('b"', i)) or (c == "r" and re.match(r'r#*"', src[i:])):
            m = re.match(r'(b?r)(#*)"', src[i:])
            if m:
                hashes = m.group(2)
                start = i + len(m.group(0))
                j = src.find('"' + hashes, start)
                j = n if j < 0 else j + 1 + len(hashes)
                # keep the literal text of raw strings out, but keep quotes
                fill(start, j - 1 - len(hashes))
                i = j
            else:
                start = i + (2 if c == "b" else 1)
                j = start
                while j < n and src[j] != '"':
                    j += 2 if src[j] == "\\" else 1
                # keep string contents for feature names: handled separately -> do not blank cfg strings
                i = j + 1
        elif c == "'" :
            m = re.match(r"'(\\.|[^\\'])'", src[i:])
            if m:
                fill(i + 1, i + len(m.group(0)) - 1)
                i += len(m.group(0))
            else:
                i += 1  # lifetime
        else:
            i += 1
    return "".join(out)


def match_close(s, i, open_c, close_c):
    """s[i] == open_c; returns index of the matching close."""
    depth = 0
    n = len(s)
    in_str = False
    while i < n:
        c = s[i]
        if in_str:
            if c == "\\":
                i += 2
                continue
            if c == '"':
                in_str = False
        elif c == '"':
            in_str = True
        elif c == open_c:
            depth += 1
        elif c == close_c:
            depth -= 1
            if depth == 0:
                return i
        i += 1
    raise ValueError("unbalanced %s at %d" % (open_c, i))


# --------------------------------------------------------------------------------------------
# cfg predicate -> z3
# --------------------------------------------------------------------------------------------
class CfgError(Exception):
    pass


def parse_pred(text):
    toks = re.findall(r'"[^"]*"|[A-Za-z_][A-Za-z0-9_]*|[(),=]|\$[A-Za-z_]+', text)
    pos = [0]

    def peek():
        return toks[pos[0]] if pos[0] < len(toks) else None

    def eat(t=None):
        x = peek()
        if t is not None and x != t:
            raise CfgError("expected %r got %r in %r" % (t, x, text))
        pos[0] += 1
        return x

    def pred():
        t = eat()
        if t in ("any", "all", "not"):
            eat("(")
            args = []
            while peek() != ")":
                args.append(pred())
                if peek() == ",":
                    eat(",")
            eat(")")
            if t == "any":
                return z3.Or(*args) if args else z3.BoolVal(False)
            if t == "all":
                return z3.And(*args) if args else z3.BoolVal(True)
            if len(args) != 1:
                raise CfgError("not() arity")
            return z3.Not(args[0])
        if t == "feature":
            eat("=")
            v = eat()
            name = v.strip('"')
            if v.startswith("$"):
                raise CfgError("macro variable in cfg")
            if name not in FEATURES:
                raise CfgError("unknown feature %r" % name)
            return VARS[name]
        if t in ("test", "docsrs", "hpke_verif"):
            return VARS[t]
        if t in ("kani", "doc", "debug_assertions"):
            return z3.Bool("cfg_" + t)
        raise CfgError("unknown cfg atom %r in %r" % (t, text))

    p = pred()
    if pos[0] != len(toks):
        raise CfgError("trailing tokens in %r" % text)
    return p


# --------------------------------------------------------------------------------------------
# item extraction
# --------------------------------------------------------------------------------------------
class Item:
    def __init__(self, file, line, kind, name, vis, cfg_terms, cfg_text, header, body, in_fn=False):
        self.file, self.line, self.kind, self.name, self.vis = file, line, kind, name, vis
        self.cfg_terms = cfg_terms  # list of z3 terms (enclosing + own)
        self.cfg_text = cfg_text
        self.header = header
        self.body = body
        self.in_fn = in_fn

    def cond(self):
        return z3.And(*self.cfg_terms) if self.cfg_terms else z3.BoolVal(True)

    def __repr__(self):
        return "%s:%d %s %s [%s]" % (self.file, self.line, self.kind, self.name, " & ".join(self.cfg_text) or "always")


KW = ("fn", "struct", "enum", "trait", "impl", "mod", "use", "const", "static", "type", "macro_rules", "extern", "unsafe")


class Extractor:
    def __init__(self, root):
        self.root = root
        self.items = []
        self.errors = []
        self.fn_body_cfgs = []  # (file, line, text, enclosing terms)

    def read(self, rel):
        return open(os.path.join(self.root, rel)).read()

    def run(self):
        self.parse_file("src/lib.rs", [], [], "crate")
        return self

    def parse_file(self, rel, terms, texts, modpath):
        try:
            raw = self.read(rel)
        except FileNotFoundError:
            self.errors.append("missing module file %s" % rel)
            return
        src = blank(raw)
        self.parse_block(rel, src, 0, len(src), terms, texts, modpath)

    def line_of(self, src, i):
        return src.count("\n", 0, i) + 1

    def parse_block(self, rel, src, i, end, terms, texts, modpath, in_impl=False):
        while i < end:
            # skip whitespace
            m = re.compile(r"\s*").match(src, i, end)
            i = m.end()
            if i >= end:
                break
            # attributes
            own_terms, own_texts = [], []
            start_item = i
            while src.startswith("#", i):
                j = src.index("[", i)
                k = match_close(src, j, "[", "]")
                attr = src[j + 1 : k].strip()
                inner = src[i + 1] == "!"
                am = re.match(r"cfg\s*\((.*)\)\s*$", attr, re.S)
                if am and not inner:
                    try:
                        own_terms.append(parse_pred(am.group(1)))
                        own_texts.append(re.sub(r"\s+", " ", am.group(1)))
                    except CfgError as e:
                        self.errors.append("%s:%d: %s" % (rel, self.line_of(src, i), e))
                i = k + 1
                i = re.compile(r"\s*").match(src, i, end).end()
            if i >= end:
                break
            if src[i] == "}":
                i += 1
                continue
            # header: up to first '{' or ';' at nesting level 0 of () [] <>-agnostic
            j = i
            depth_par = 0
            while j < end:
                c = src[j]
                if c in "([":
                    depth_par += 1
                elif c in ")]":
                    depth_par -= 1
                elif c == '"':
                    j = src.index('"', j + 1)
                elif depth_par == 0 and c in "{;":
                    break
                j += 1
            if re.match(r"(pub\s*(\([^)]*\))?\s*)?use\b", src[i:j + 1]) and j < end and src[j] == "{":
                j = src.index(";", j)
            header = re.sub(r"\s+", " ", src[i:j]).strip()
            line = self.line_of(src, i)
            body_start = body_end = None
            if j < end and src[j] == "{":
                body_start = j
                body_end = match_close(src, j, "{", "}")
                nxt = body_end + 1
            else:
                nxt = j + 1
            kind, name, vis = self.classify(header)
            t_all, x_all = terms + own_terms, texts + own_texts
            body = src[body_start:body_end + 1] if body_start is not None else ""
            it = Item(rel, line, kind, name, vis, t_all, x_all, header, body)
            self.items.append(it)
            if kind == "mod":
                if body_start is None:
                    # file module
                    base = os.path.dirname(rel)
                    stem = os.path.splitext(os.path.basename(rel))[0]
                    pm = re.search(r'#\[path\s*=\s*"([^"]+)"\]', src[start_item:i])
                    cands = []
                    if stem in ("lib", "mod"):
                        cands = [os.path.join(base, name + ".rs"), os.path.join(base, name, "mod.rs")]
                    else:
                        cands = [os.path.join(base, stem, name + ".rs"), os.path.join(base, stem, name, "mod.rs")]
                    for c in cands:
                        if os.path.exists(os.path.join(self.root, c)):
                            self.parse_file(c, t_all, x_all, modpath + "::" + name)
                            break
                    else:
                        self.errors.append("%s:%d: module file for `%s` not found" % (rel, line, name))
                else:
                    inner_src = src
                    if re.search(r"include!\s*\(", body):
                        pass  # verification include, nothing to extract statically
                    self.parse_block(rel, inner_src, body_start + 1, body_end, t_all, x_all, modpath + "::" + name)
            elif kind in ("impl", "trait"):
                self.parse_block(rel, src, body_start + 1, body_end, t_all, x_all, modpath, in_impl=True)
            elif kind == "fn" and body_start is not None:
                for am in re.finditer(r"#\[cfg\s*\(", body):
                    a = body_start + am.start()
                    k = match_close(src, src.index("[", a), "[", "]")
                    txt = src[src.index("(", a) + 1 : k - 1]
                    txt = src[src.index("(", a) + 1 : match_close(src, src.index("(", a), "(", ")")]
                    self.fn_body_cfgs.append((rel, self.line_of(src, a), re.sub(r"\s+", " ", txt), t_all, name))
            i = nxt

    def classify(self, header):
        h = header
        vis = "priv"
        m = re.match(r"pub\s*(\([^)]*\))?\s*", h)
        if m:
            vis = "pub" if not m.group(1) else "pub" + m.group(1).replace(" ", "")
            h = h[m.end():]
        h = re.sub(r"^(default\s+|async\s+|const\s+(?=fn)|unsafe\s+(?=fn|impl|trait)|extern\s+\"[^\"]*\"\s+(?=fn))", "", h)
        m = re.match(r"macro_rules\s*!\s*([A-Za-z_][A-Za-z0-9_]*)", h)
        if m:
            return "macro_rules", m.group(1), vis
        m = re.match(r"extern\s+crate\s+([A-Za-z_][A-Za-z0-9_]*)", h)
        if m:
            return "extern_crate", m.group(1), vis
        m = re.match(r"(fn|struct|enum|trait|mod|const|static|type|union)\s+(mut\s+)?([A-Za-z_][A-Za-z0-9_]*)", h)
        if m:
            return m.group(1), m.group(3), vis
        if re.match(r"use\b", h):
            return "use", re.sub(r"^use\s+", "", h), vis
        if re.match(r"impl\b", h):
            return "impl", re.sub(r"^impl\s*", "", h), vis
        m = re.match(r"([A-Za-z_][A-Za-z0-9_:]*)\s*!\s*", h)
        if m:
            return "macro_call", m.group(1) + ":" + re.sub(r"\s+", " ", h[m.end():])[:200], vis
        return "other", h[:60], vis


# --------------------------------------------------------------------------------------------
# obligations
# --------------------------------------------------------------------------------------------
def env_constraints():
    # a library build as a dependency: not cfg(test), not docsrs
    return [z3.Not(VARS["test"]), z3.Not(VARS["docsrs"])]


def model_to_config(m):
    feats = [f for f in FEATURES if z3.is_true(m.eval(VARS[f], model_completion=True))]
    hv = z3.is_true(m.eval(VARS["hpke_verif"], model_completion=True))
    return feats, hv


class Checker:
    def __init__(self, ex):
        self.ex = ex
        self.obligations = []  # (name, description, status, witness)
        self.queries = 0
        self.solver_s = 0.0

    def valid(self, name, desc, formula, extra=None):
        """obligation: `formula` holds under every assignment. Returns None or a model."""
        s = z3.Solver()
        for c in env_constraints():
            s.add(c)
        if extra is not None:
            s.add(extra)
        s.add(z3.Not(formula))
        t0 = time.time()
        r = s.check()
        self.solver_s += time.time() - t0
        self.queries += 1
        if r == z3.unsat:
            self.obligations.append({"name": name, "desc": desc, "status": "holds"})
            return None
        if r == z3.sat:
            feats, hv = model_to_config(s.model())
            self.obligations.append({"name": name, "desc": desc, "status": "violated", "features": feats, "hpke_verif": hv})
            return feats, hv
        self.obligations.append({"name": name, "desc": desc, "status": "unknown"})
        return ("unknown",)

    def find(self, kind, name, file=None, non_test=True):
        out = []
        for it in self.ex.items:
            if it.kind == kind and (it.name == name or (kind in ("use", "macro_call") and name in it.name)):
                if file and it.file != file:
                    continue
                out.append(it)
        if non_test:
            # drop items that can only exist under cfg(test)
            keep = []
            for it in out:
                s = z3.Solver()
                s.add(z3.Not(VARS["test"]))
                s.add(it.cond())
                if s.check() == z3.sat:
                    keep.append(it)
            out = keep
        return out

    def presence(self, items):
        return z3.Or(*[it.cond() for it in items]) if items else z3.BoolVal(False)


def run_checks(ex):
    ck = Checker(ex)
    A, S = VARS["alloc"], VARS["std"]
    alloc_or_std = z3.Or(A, S)
    missing = []

    def need(kind, name, file=None):
        its = ck.find(kind, name, file)
        if not its:
            missing.append("%s %s%s" % (kind, name, " in " + file if file else ""))
        return its

    # A. in-place API always present
    for kind, name, file in [
        ("fn", "seal_in_place_detached", "src/aead.rs"),
        ("fn", "open_in_place_detached", "src/aead.rs"),
        ("fn", "export", "src/aead.rs"),
        ("fn", "single_shot_seal_in_place_detached", "src/single_shot.rs"),
        ("fn", "single_shot_open_in_place_detached", "src/single_shot.rs"),
        ("fn", "setup_sender", "src/setup.rs"),
        ("fn", "setup_receiver", "src/setup.rs"),
        ("use", "single_shot_open_in_place_detached", "src/lib.rs"),
        ("use", "single_shot_seal_in_place_detached", "src/lib.rs"),
        ("use", "setup_receiver", "src/lib.rs"),
        ("use", "setup_sender", "src/lib.rs"),
        ("use", "OpModeR", "src/lib.rs"),
        ("use", "PskBundle", "src/lib.rs"),
        ("use", "kem::Kem", "src/lib.rs"),
        ("mod", "aead", "src/lib.rs"),
        ("mod", "kdf", "src/lib.rs"),
        ("mod", "kem", "src/lib.rs"),
        ("enum", "HpkeError", "src/lib.rs"),
        ("trait", "Serializable", "src/lib.rs"),
        ("trait", "Deserializable", "src/lib.rs"),
    ]:
        its = need(kind, name, file)
        if its:
            # every definition site must be unconditional (e.g. both the S and R `export`)
            for it in its:
                ck.valid("always:%s:%s:%d" % (name, it.file, it.line), "in-place / core API item `%s` (%s:%d) is present under every feature subset" % (name, it.file, it.line), it.cond())
            if kind == "use":
                for it in its:
                    if not it.vis == "pub":
                        ck.obligations.append({"name": "pubuse:" + name, "desc": "re-export of %s is pub" % name, "status": "violated", "features": [], "hpke_verif": False})

    # B. allocating API present <=> alloc or std
    for kind, name, file in [
        ("fn", "seal", "src/aead.rs"),
        ("fn", "open", "src/aead.rs"),
        ("fn", "single_shot_seal", "src/single_shot.rs"),
        ("fn", "single_shot_open", "src/single_shot.rs"),
    ]:
        its = need(kind, name, file)
        if its:
            ck.valid("alloc_iff:%s" % name, "allocating API fn `%s` is present exactly when alloc or std is enabled" % name, ck.presence(its) == alloc_or_std)
            for it in its:
                if it.vis != "pub":
                    ck.obligations.append({"name": "pub:" + name, "desc": "%s is pub" % name, "status": "violated", "features": [], "hpke_verif": False})
    for name in ("single_shot_open", "single_shot_seal"):
        its = [it for it in ck.find("use", name, "src/lib.rs") if re.search(r"\b%s\b" % name, it.name) and it.vis == "pub"]
        if not its:
            missing.append("pub use of " + name + " in src/lib.rs")
        else:
            ck.valid("reexport_iff:%s" % name, "crate-root re-export of `%s` is present exactly when alloc or std is enabled" % name, ck.presence(its) == alloc_or_std)

    # C. crate::Vec / vec!: exactly one definition whenever alloc or std; users only then
    vec_defs = [it for it in ex.items if it.kind == "use" and it.file == "src/lib.rs" and re.search(r"\bvec::Vec\b", it.name)]
    if not vec_defs:
        missing.append("definition of crate::Vec")
    else:
        conds = [it.cond() for it in vec_defs]
        exactly_one = z3.PbEq([(c, 1) for c in conds], 1)
        ck.valid("vec_def_exactly_one", "exactly one definition of crate::Vec is active whenever alloc or std is enabled", z3.Implies(alloc_or_std, exactly_one))
        ck.valid("vec_def_at_most_one", "never two definitions of crate::Vec", z3.PbLe([(c, 1) for c in conds], 1))
    for it in ex.items:
        if it.kind in ("fn",) and re.search(r"\bcrate::Vec\b|\bvec!\s*\[|\bto_vec\s*\(", it.body + it.header):
            s = z3.Solver()
            s.add(z3.Not(VARS["test"]), it.cond())
            if s.check() == z3.unsat:
                continue  # test-only
            ck.valid("vec_user:%s:%d" % (it.file, it.line), "fn `%s` (%s:%d) uses Vec and is therefore only active when a Vec definition is" % (it.name, it.file, it.line), z3.Implies(it.cond(), alloc_or_std))
    # D. extern crates / std paths
    ec_std = ck.find("extern_crate", "std")
    ec_alloc = ck.find("extern_crate", "alloc")
    if ec_std:
        ck.valid("extern_std", "`extern crate std` is active exactly under feature std", ck.presence(ec_std) == S)
    else:
        missing.append("extern crate std")
    if ec_alloc:
        ck.valid("extern_alloc", "`extern crate alloc` is active exactly under alloc and not std", ck.presence(ec_alloc) == z3.And(A, z3.Not(S)))
    else:
        missing.append("extern crate alloc")
    for it in ex.items:
        txt = it.header + " " + it.body
        if re.search(r"(?<![A-Za-z0-9_:])std::", txt) and it.kind != "mod":
            s = z3.Solver()
            s.add(z3.Not(VARS["test"]), it.cond())
            if s.check() == z3.unsat:
                continue
            ck.valid("std_path:%s:%d" % (it.file, it.line), "item at %s:%d names a std:: path and is only active under feature std" % (it.file, it.line), z3.Implies(it.cond(), S))
        if re.search(r"(?<![A-Za-z0-9_:])alloc::", txt) and it.kind != "mod":
            s = z3.Solver()
            s.add(z3.Not(VARS["test"]), it.cond())
            if s.check() == z3.unsat:
                continue
            ck.valid("alloc_path:%s:%d" % (it.file, it.line), "item at %s:%d names an alloc:: path and is only active under alloc and not std" % (it.file, it.line), z3.Implies(it.cond(), z3.And(A, z3.Not(S))))

    # E. KEMs: presence <=> feature, and reference closure
    kems = {
        "X25519HkdfSha256": ("x25519", "x25519", None),
        "DhP256HkdfSha256": ("p256", "ecdh_nistp", "p256"),
        "DhP384HkdfSha384": ("p384", "ecdh_nistp", "p384"),
        "DhP521HkdfSha512": ("p521", "ecdh_nistp", "p521"),
    }
    for kem, (feat, dhmod, curve) in kems.items():
        its = [it for it in ex.items if it.kind == "macro_call" and it.name.startswith("impl_dhkem:") and re.search(r"\b%s\b" % kem, it.name)]
        if not its:
            missing.append("impl_dhkem! invocation for " + kem)
            continue
        ck.valid("kem_iff:%s" % kem, "KEM type %s is present exactly when feature %s is enabled" % (kem, feat), ck.presence(its) == VARS[feat])
        # closure: the DH module it names must be active whenever the KEM is
        mods = [it for it in ex.items if it.kind == "mod" and it.name == dhmod and it.file == "src/dhkex.rs"]
        if not mods:
            missing.append("mod " + dhmod)
            continue
        defc = ck.presence(mods)
        if curve:
            calls = [it for it in ex.items if it.kind == "macro_call" and it.name.startswith("nistp_dhkex:") and re.search(r"\b%s\b" % curve, it.name) and it.file == "src/dhkex/ecdh_nistp.rs"]
            if not calls:
                missing.append("nistp_dhkex! invocation for " + curve)
                continue
            defc = z3.And(defc, ck.presence(calls))
            ck.valid("curve_iff:%s" % curve, "ECDH group %s is defined exactly when feature %s is enabled" % (curve, feat), defc == VARS[feat])
        ck.valid("kem_closure:%s" % kem, "whenever %s is present the Diffie-Hellman group it is built on is defined" % kem, z3.Implies(ck.presence(its), defc))
    nist_mod = [it for it in ex.items if it.kind == "mod" and it.name == "ecdh_nistp" and it.file == "src/dhkex.rs"]
    if nist_mod:
        ck.valid("nist_mod_iff", "mod ecdh_nistp is compiled exactly when one of p256/p384/p521 is enabled", ck.presence(nist_mod) == z3.Or(VARS["p256"], VARS["p384"], VARS["p521"]))
    # optional dependencies <-> features (Cargo.toml)
    cargo = open(os.path.join(REPO, "Cargo.toml")).read()
    deps = {"x25519": "x25519-dalek", "p256": "p256", "p384": "p384", "p521": "p521"}
    for feat, dep in deps.items():
        ok_feat = re.search(r'(?m)^%s\s*=\s*\[\s*"dep:%s"\s*\]' % (re.escape(feat), re.escape(dep)), cargo) is not None
        ok_opt = re.search(r'(?ms)^%s\s*=\s*\{[^}]*optional\s*=\s*true' % re.escape(dep), cargo) is not None
        ck.obligations.append({"name": "dep:" + feat, "desc": "feature %s enables exactly the optional dependency %s (Cargo.toml)" % (feat, dep), "status": "holds" if ok_feat and ok_opt else "violated", "features": [feat], "hpke_verif": False})
    for feat in ("alloc", "std"):
        ok = re.search(r"(?m)^%s\s*=\s*\[\s*\]" % feat, cargo) is not None
        ck.obligations.append({"name": "feat:" + feat, "desc": "feature %s is a pure cfg switch (enables no dependency)" % feat, "status": "holds" if ok else "violated", "features": [feat], "hpke_verif": False})

    # G. guard off => hooks vanish: every item whose condition mentions hpke_verif is inactive without it
    HV = VARS["hpke_verif"]
    n_hv = 0
    for it in ex.items:
        if any("hpke_verif" in t for t in it.cfg_text):
            n_hv += 1
            ck.valid("guard:%s:%d" % (it.file, it.line), "hook item at %s:%d is compiled out when the verification guard is off" % (it.file, it.line), z3.Implies(it.cond(), HV))
    for it in ex.items:
        txt = it.header + " " + it.body
        # statements that carry their own guard are checked by the fn-body obligations (H)
        txt = re.sub(r"#\[cfg\s*\(\s*hpke_verif\s*\)\]\s*[^;{}]*;", " ", txt)
        if it.kind in ("impl", "trait", "mod") and it.name not in ("verif_hooks", "verif_model"):
            continue  # containers: their members are items of their own
        if re.search(r"\bverif_hooks\b|\bverif_model\b|HPKE_VERIF_", txt) or (it.kind == "mod" and it.name in ("verif_hooks", "verif_model")):
            ck.valid("guard_ref:%s:%d" % (it.file, it.line), "code naming verification hooks at %s:%d is itself guarded" % (it.file, it.line), z3.Implies(it.cond(), HV))
    # H. no cfg inside function bodies other than the guard (outputs cannot depend on features)
    for rel, line, txt, enclosing, fname in ex.fn_body_cfgs:
        s = z3.Solver()
        s.add(z3.Not(VARS["test"]))
        for t in enclosing:
            s.add(t)
        if s.check() == z3.unsat:
            continue  # inside test-only code
        try:
            p = parse_pred(txt)
        except CfgError as e:
            ck.obligations.append({"name": "fnbody:%s:%d" % (rel, line), "desc": str(e), "status": "unknown"})
            continue
        ck.valid("fnbody:%s:%d" % (rel, line), "the cfg inside fn `%s` (%s:%d) is the verification guard only, so no feature changes what a function computes" % (fname, rel, line), z3.Implies(p, HV))
    return ck, missing


# --------------------------------------------------------------------------------------------
# replay of a violating configuration with cargo
# --------------------------------------------------------------------------------------------
PROBE_SRC = """
#![allow(unused_imports)]
// in-place API: always
use hpke::{single_shot_open_in_place_detached, single_shot_seal_in_place_detached, setup_receiver, setup_sender};
#[cfg(any(feature = "alloc", feature = "std"))]
use hpke::{single_shot_open, single_shot_seal};
#[cfg(feature = "x25519")]
use hpke::kem::X25519HkdfSha256;
#[cfg(feature = "p256")]
use hpke::kem::DhP256HkdfSha256;
#[cfg(feature = "p384")]
use hpke::kem::DhP384HkdfSha384;
#[cfg(feature = "p521")]
use hpke::kem::DhP521HkdfSha512;
"""


def replay(feats, build_dir):
    """Returns (reproduced, log). Builds a probe crate that uses exactly the API the property
    promises for this feature subset; a compile error reproduces the violation."""
    d = os.path.join(build_dir, "c17probe")
    os.makedirs(os.path.join(d, "src"), exist_ok=True)
    fl = ", ".join('"%s"' % f for f in feats)
    with open(os.path.join(d, "Cargo.toml"), "w") as f:
        f.write('[package]\nname = "c17probe"\nversion = "0.0.0"\nedition = "2021"\n[workspace]\n[features]\n')
        for ft in FEATURES:
            f.write('%s = ["hpke/%s"]\n' % (ft, ft))
        f.write('[dependencies]\nhpke = { path = "%s", default-features = false }\n' % REPO)
    with open(os.path.join(d, "src", "lib.rs"), "w") as f:
        f.write(PROBE_SRC)
    lock = os.path.join(REPO, "Cargo.lock")
    if os.path.exists(lock):
        import shutil

        shutil.copy(lock, os.path.join(d, "Cargo.lock"))
    cmd = ["cargo", "check", "--offline", "--no-default-features", "--target-dir", os.path.join(build_dir, "c17target")]
    if feats:
        cmd += ["--features", ",".join(feats)]
    p = subprocess.run(cmd, cwd=d, stdout=subprocess.PIPE, stderr=subprocess.STDOUT, text=True, env=dict(os.environ, CARGO_NET_OFFLINE="true"))
    return p.returncode != 0, p.stdout[-3000:]


def main(args=None, seed=0):
    t0 = time.time()
    verif = os.path.dirname(os.path.dirname(os.path.abspath(__file__)))
    build_dir = os.environ.get("VERIF_BUILD_DIR", os.path.join(verif, ".build"))
    os.makedirs(build_dir, exist_ok=True)
    tier = getattr(args, "tier", "quick") if args else os.environ.get("VERIF_TIER", "quick")
    seed = int(os.environ.get("VERIF_SEED", "0") or 0)
    ex = Extractor(REPO).run()
    ck, missing = run_checks(ex)
    violated = [o for o in ck.obligations if o["status"] == "violated"]
    unknown = [o for o in ck.obligations if o["status"] == "unknown"]
    rc = 0
    lines = []
    cases_dir = os.environ.get("VERIF_CASES_DIR", os.path.join(verif, "replay", "cases"))
    os.makedirs(cases_dir, exist_ok=True)
    reproduced = []
    notrep = []
    seen_cfg = {}
    for o in violated:
        feats = o.get("features", [])
        key = ",".join(feats)
        if key not in seen_cfg:
            seen_cfg[key] = replay(feats, build_dir)
        rep, logtxt = seen_cfg[key]
        # a presence mismatch is observable either as a build failure of the probe or - when the
        # crate offers MORE than promised - not at all by a compile probe; treat "API missing"
        # (probe fails) as reproduced, anything else as reported-by-solver-only
        o["replayed"] = rep
        if rep:
            reproduced.append(o)
        else:
            notrep.append(o)
    if ex.errors or missing or unknown:
        rc = 2
    if violated:
        case = os.path.join(cases_dir, "C17-cfg.json")
        with open(case, "w") as f:
            json.dump({"violated": violated, "replay": "cargo check --offline --no-default-features --features <features> on a probe crate using the promised API"}, f, indent=1)
        if reproduced:
            rc = 1
            print("VIOLATION property=C17 replay=%s" % case)
        else:
            # the solver's configuration did not show up as a compile error of the probe: the extractor's
            # reading of the source is the only evidence -> inconclusive, never a pass
            rc = 2
        for o in violated:
            print("    %s: %s  [features: %s]%s" % (o["name"], o["desc"], ",".join(o.get("features", [])) or "(none)", " reproduced with cargo" if o.get("replayed") else " NOT reproduced by the compile probe"))
    for e in ex.errors:
        print("[C17] extractor: " + e)
    for m in missing:
        print("[C17] expected item not found: " + m)
    holds = [o for o in ck.obligations if o["status"] == "holds"]
    print("[C17] %d items extracted, %d obligations, %d hold for all 2^7 configurations, %d violated, %d undecided (%.1f s solver)" % (len(ex.items), len(ck.obligations), len(holds), len(violated), len(unknown) + len(missing) + len(ex.errors), ck.solver_s))
    ev = {
        "property_id": "C17",
        "tier": tier if tier in ("quick", "thorough") else "quick",
        "seed": seed,
        "level": "other",
        "coverage": {
            "explanation": "presence logic only: every #[cfg] of /repo/src (extracted from the current tree by cfgsat/c17.py) as a Boolean term over (alloc,std,x25519,p256,p384,p521,hpke_verif); each obligation's negation is decided by z3 for all 2^7 assignments at once (unsat = holds for every configuration). Compile/test success per subset is NOT decided (rustc's and the test suite's verdict, outside this technique).",
            "obligations": len(ck.obligations),
            "discharged": len(holds),
            "evaluations": ck.queries,
            "distinct_nontrivial": min(ck.queries, len([o for o in ck.obligations if o["status"] in ("holds", "violated")])),
            "rule": "one evaluation = one z3 validity query over the 7 configuration variables",
            "samples": [{"obligation": o["name"], "statement": o["desc"], "verdict": o["status"]} for o in ck.obligations[:60]],
            "items_extracted": len(ex.items),
            "cfg_inside_fn_bodies": [(r, l, t) for r, l, t, _, _ in ex.fn_body_cfgs],
            "configurations": 128,
            "solver": "z3 %s" % z3.get_version_string(),
            "solver_time_s": round(ck.solver_s, 3),
            "queries": ck.queries,
            "checker_cmd": "python3-vt cfgsat/c17.py",
            "trusted_base": ["cfgsat/c17.py lexical item/cfg extractor", "z3"],
            "extractor_errors": ex.errors + missing,
            "exhaustive": True,
        },
        "assumptions": [
            "the lightweight extractor reads item headers and cfg attributes correctly (no proc-macro generated cfgs in this crate)",
            "cfg(test) and cfg(docsrs) are false (library built as a dependency)",
            "type-correctness and test success under each feature subset are outside the claim",
        ],
        "wall_s": round(time.time() - t0, 2),
        "violations": len(reproduced),
    }
    evdir = os.environ.get("VERIF_EVIDENCE_DIR", os.path.join(verif, "evidence"))
    os.makedirs(evdir, exist_ok=True)
    with open(os.path.join(evdir, "C17.json"), "w") as f:
        json.dump(ev, f, indent=1)
        f.write("\n")
    return rc


if __name__ == "__main__":
    sys.exit(main())
