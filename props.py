"""Per-property assumptions (model primitives, stubs) and the special (non-Kani) checks."""
import os
import subprocess
import sys

VERIF = os.path.dirname(os.path.abspath(__file__))

LIN = "LinHash/LinKdf: rotate-xor model hash (Nh=8, block=8) stands for 'any deterministic hash'; sound for equalities with the RFC reference (equal terms give equal outputs under any hash), a deviation is found when SOME input distinguishes it"
INTERN = "InternKdf: in the C07/C08 harnesses HMAC itself is modelled as an INJECTIVE function of (key, message) (interning table; equal outputs <=> equal inputs) through the hkdf stub layer; disequality results hold in this symbolic model - for HMAC-SHA-2 the corresponding assumption is collision resistance / PRF security, which no solver decides"
XORDH = "XorDh: 16-bit toy Diffie-Hellman group (pk(a)=a^G, dh(a,P)=a^P^G, rejects a zero result) instantiated through the REAL impl_dhkem! macro; stands for the algebraic facts HPKE uses (commutativity, injectivity, a failing DH)"
SPY = "SpyAead: records exactly what hpke hands to the AEAD and returns a harness-chosen (symbolic) verdict/tag; stands for 'any AEAD whatsoever'"
IDEAL = "IdealAead: invertible keystream + decrypt accepts iff (key,nonce,aad,ct,tag) was produced by encrypt (INT-CTXT by construction); the real AES-GCM/ChaCha20Poly1305 crates are assumed to be correct AEADs"
RNG = "ScriptRng: the caller's RNG hands out symbolic bytes and records every call"
HKDFSTUB = "in the composed (setup-level) harnesses the hkdf crate's five entry points hpke calls (HkdfExtract::new/input_ikm/finalize, Hkdf::from_prk/expand_multi_info) are replaced by a functional model of RFC 5869/2104 over the same model hash (kani/hv/src/fasthkdf.rs; 14x faster); the real hkdf+hmac crates are tied to the same reference by the un-stubbed harnesses c02_l0_labeled_kdf_real and c03_*"
REF = "oracle: kani/hv/src/rfc9180.rs, an independent transcription of RFC 9180 sections 4-5, 7.1.3 over hand-written HMAC (RFC 2104) and HKDF (RFC 5869)"
SCRIPT = "ScriptKdf: in c03_l4_* every HMAC output is harness-chosen (symbolic) and the HMAC inputs are logged - the hash is an arbitrary function; SecretKey::public_key (curve arithmetic) is replaced by an assertion point that ends the path"
SKETCH = "EndsKdf/sketch.rs: in the long-input harnesses the hash is a sketch of the concatenated message (length, first 48 bytes, last byte, six far probes): sound for equalities with the reference; a deviation is found when it changes the sketch (any length change does)"
PARAM = "transfer from the model suite to the 48 real suites: hpke's generic code sees its parameters only through the trait items; the non-parametric facts (ids, sizes, suite-id bytes, capacity constants) are decided on the real types by c02_l6_tables"
REALCRYPTO = "arithmetic of the real primitives (SHA-2, AES-GCM, ChaCha20Poly1305, X25519, P-256/384/521) is NOT executed symbolically (measured out of reach); their correctness is assumed"

ASSUMPTIONS = {
    "C01": [HKDFSTUB, XORDH, LIN, IDEAL, RNG, PARAM, REALCRYPTO],
    "C02": [HKDFSTUB, XORDH, LIN, SPY, RNG, REF, SKETCH, PARAM, REALCRYPTO],
    "C03": [XORDH, LIN, RNG, REF, SCRIPT, PARAM, REALCRYPTO, "pk(sk) and DH results on the real curves for symbolic keys are not decided"],
    "C04": [SPY, "LinKdf/ToyKemLin only fix the type parameters of the context (no hashing happens in seal)"],
    "C05": [SPY, IDEAL],
    "C06": [SPY, IDEAL],
    "C07": [HKDFSTUB, XORDH, INTERN, IDEAL, RNG, SKETCH, PARAM],
    "C08": [HKDFSTUB, XORDH, INTERN, IDEAL, RNG, PARAM, "on the real curves the corresponding assumption is gap-DH"],
    "C09": ["coordinate range and curve-equation checks of public keys (x,y < p, on-curve) are NOT decided: symbolic field arithmetic is out of reach (measured); only length, tag byte and private-scalar range are claimed"],
    "C10": ["x25519_dalek::StaticSecret::diffie_hellman is stubbed by an oracle returning an arbitrary 32-byte value (the ladder is out of reach); that every small-order encoding yields the zero value for every scalar is Curve25519 mathematics and not decided"],
    "C11": [HKDFSTUB, LIN, SPY, REF, "ConstKdf (Nh=2, constant hash) for the 255*Nh limit; successful maximum-length export on real SHA-2 is not executed (follows from the generic-code harness)"],
    "C12": ["NIST public/encapsulated key round trips (need symbolic field arithmetic) are not decided; X25519, NIST private keys, tags and all length checks are"],
    "C13": [HKDFSTUB, XORDH, LIN, SPY, RNG, SKETCH, "for NIST public keys of the right length with tag 0x04 the curve crates' own arithmetic is not executed; panics inside the primitive crates are outside the claim"],
    "C14": [HKDFSTUB, XORDH, LIN, IDEAL, RNG],
    "C15": [HKDFSTUB, XORDH, LIN, SPY, REF],
    "C16": [HKDFSTUB, "volatile writes are modelled as plain writes; survival of the wipes under compiler optimisation is zeroize's guarantee and not decided; copies left by moves and key material inside the AEAD state are outside the claim"],
    "C18": [HKDFSTUB, XORDH, LIN, SPY, RNG, REF, "thread schedules are NOT explored (Kani has no concurrency model); claimed: sequential history independence, commutation of operations on distinct contexts, Send+Sync by the type checker"],
}


def c17(args, seed):
    env = dict(os.environ)
    env["VERIF_TIER"] = getattr(args, "tier", "quick")
    env["VERIF_SEED"] = str(seed)
    p = subprocess.run(["python3-vt", os.path.join(VERIF, "cfgsat", "c17.py")], env=env)
    return p.returncode


SPECIAL = {"C17": c17}
