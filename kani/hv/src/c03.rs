//! C03 - DHKEM conformance (DESIGN.md section 2, C03).  The real `impl_dhkem!` body, `Kem::gen_keypair`
//! default method and `derive_keypair` plumbing, instantiated with the model group XorDh and the
//! model KDF LinKdf, compared with the RFC 9180 transcription in rfc9180.rs.
use crate::models::*;
use crate::rfc9180 as rfc;
use crate::util::*;
use hpke::kem::{Kem as KemTrait, SharedSecret, ToyKemLin};
use hpke::verif_model::{toy_lin_encap_with_eph, LinHash, XorPrivateKey, XorPublicKey};
use hpke::{Deserializable, HpkeError, Serializable};

pub type G8 = rfc::XorGroupN<8>;
pub const KEM_ID: u16 = 0x7a01;

pub fn enc_from(e: u16) -> <ToyKemLin as KemTrait>::EncappedKey {
    <<ToyKemLin as KemTrait>::EncappedKey as Deserializable>::from_bytes(&e.to_be_bytes()).unwrap()
}

//@h name=c03_l1_encap_base tier=quick mode=func also=C02 timeout=600 desc="real encap_with_eph (unauthenticated) of DHKEM(XorDh,LinKdf) == RFC 9180 Encap for every recipient public key and ephemeral key: same shared secret, enc = SerializePublicKey(pk(skE)), EncapError exactly when the DH result is rejected; the honest recipient's decap returns the same secret" bounds="all 2^16 pkR x 2^16 skE; model hash LinHash (Nh=8); unwind 20"
#[kani::proof]
#[kani::unwind(20)]
#[kani::stub(zeroize::optimization_barrier, noop_barrier)]
pub fn c03_l1_encap_base() {
    let pk_r: u16 = kani::any();
    let sk_e: u16 = kani::any();
    let res = toy_lin_encap_with_eph(&XorPublicKey(pk_r), None, XorPrivateKey(sk_e));
    let want = rfc::encap::<G8, LinHash>(KEM_ID, pk_r, sk_e, None);
    match (res, want) {
        (Ok((ss, enc)), Some((wss, wenc))) => {
            assert!(eq_bytes(&ss.0, wss.as_slice()));
            assert!(eq_bytes(&enc.to_bytes(), wenc.as_slice()));
        }
        (Err(e), None) => assert!(e == HpkeError::EncapError),
        _ => assert!(false, "encap success/failure differs from RFC 9180"),
    }
    kani::cover!(sk_e ^ pk_r ^ rfc::XOR_G == 0, "DH failure path reached");
}

//@h name=c03_l1_decap_base tier=quick mode=func also=C02 timeout=600 desc="real decap (unauthenticated) == RFC 9180 Decap for every encapsulated key and recipient private key (not only honest ones); DecapError exactly when the DH result is rejected; pk(skR) serialisation as in the RFC" bounds="all 2^16 enc x 2^16 skR; LinHash; unwind 20"
#[kani::proof]
#[kani::unwind(20)]
#[kani::stub(zeroize::optimization_barrier, noop_barrier)]
pub fn c03_l1_decap_base() {
    let enc: u16 = kani::any();
    let sk_r: u16 = kani::any();
    let res = ToyKemLin::decap(&XorPrivateKey(sk_r), None, &enc_from(enc));
    let want = rfc::decap::<G8, LinHash>(KEM_ID, enc, sk_r, None);
    match (res, want) {
        (Ok(ss), Some(wss)) => assert!(eq_bytes(&ss.0, wss.as_slice())),
        (Err(e), None) => assert!(e == HpkeError::DecapError),
        _ => assert!(false, "decap success/failure differs from RFC 9180"),
    }
    let pk = ToyKemLin::sk_to_pk(&XorPrivateKey(sk_r));
    assert!(eq_bytes(&pk.to_bytes(), <G8 as rfc::RefGroup>::ser(<G8 as rfc::RefGroup>::pk(sk_r)).as_slice()));
}

//@h name=c03_l1_encap_auth tier=quick mode=func also=C02 timeout=900 desc="real encap_with_eph with a sender identity key pair == RFC 9180 AuthEncap: dh = DH(skE,pkR)||DH(skS,pkR), kem_context = enc||pkRm||pkSm; EncapError iff either DH is rejected" bounds="all pkR, skE, skS (2^48); pkS = pk(skS); LinHash; unwind 20"
#[kani::proof]
#[kani::unwind(20)]
#[kani::stub(zeroize::optimization_barrier, noop_barrier)]
pub fn c03_l1_encap_auth() {
    let pk_r: u16 = kani::any();
    let sk_e: u16 = kani::any();
    let sk_s: u16 = kani::any();
    let sks = XorPrivateKey(sk_s);
    let pks = ToyKemLin::sk_to_pk(&sks);
    let res = toy_lin_encap_with_eph(&XorPublicKey(pk_r), Some((&sks, &pks)), XorPrivateKey(sk_e));
    let want = rfc::encap::<G8, LinHash>(KEM_ID, pk_r, sk_e, Some(sk_s));
    match (res, want) {
        (Ok((ss, enc)), Some((wss, wenc))) => {
            assert!(eq_bytes(&ss.0, wss.as_slice()));
            assert!(eq_bytes(&enc.to_bytes(), wenc.as_slice()));
        }
        (Err(e), None) => assert!(e == HpkeError::EncapError),
        _ => assert!(false, "auth encap success/failure differs from RFC 9180"),
    }
    kani::cover!(sk_e ^ pk_r ^ rfc::XOR_G != 0 && sk_s ^ pk_r ^ rfc::XOR_G == 0, "second DH fails");
}

//@h name=c03_l1_decap_auth tier=quick mode=func also=C02 timeout=900 desc="real decap with an expected sender public key == RFC 9180 AuthDecap: dh = DH(skR,pkE)||DH(skR,pkS), kem_context = enc||pk(skR)||pkS; DecapError iff either DH is rejected" bounds="all enc, skR, pkS (2^48); LinHash; unwind 20"
#[kani::proof]
#[kani::unwind(20)]
#[kani::stub(zeroize::optimization_barrier, noop_barrier)]
pub fn c03_l1_decap_auth() {
    let enc: u16 = kani::any();
    let sk_r: u16 = kani::any();
    let pk_s: u16 = kani::any();
    let res = ToyKemLin::decap(&XorPrivateKey(sk_r), Some(&XorPublicKey(pk_s)), &enc_from(enc));
    let want = rfc::decap::<G8, LinHash>(KEM_ID, enc, sk_r, Some(pk_s));
    match (res, want) {
        (Ok(ss), Some(wss)) => assert!(eq_bytes(&ss.0, wss.as_slice())),
        (Err(e), None) => assert!(e == HpkeError::DecapError),
        _ => assert!(false, "auth decap success/failure differs from RFC 9180"),
    }
    kani::cover!(enc ^ sk_r ^ rfc::XOR_G != 0 && pk_s ^ sk_r ^ rfc::XOR_G == 0, "second DH fails");
}

const IKM: usize = 4;

//@h name=c03_l2_derive_keypair_toy tier=quick mode=func also=C02 timeout=600 desc="Kem::derive_keypair of the model KEM == RFC 9180 7.1.3 DeriveKeyPair (dkp_prk / sk labels, KEM suite id, empty info, L=Nsk) and pk = pk(sk)" bounds="ikm 0..=4 symbolic bytes; LinHash; unwind 20"
#[kani::proof]
#[kani::unwind(20)]
#[kani::stub(zeroize::optimization_barrier, noop_barrier)]
pub fn c03_l2_derive_keypair_toy() {
    let ikm: [u8; IKM] = kani::any();
    let n = any_len(IKM);
    let (sk, pk) = ToyKemLin::derive_keypair(&ikm[..n]);
    let mut want = [0u8; 2];
    rfc::derive_sk_simple::<LinHash>(KEM_ID, &ikm[..n], &mut want);
    assert!(eq_bytes(&sk.to_bytes(), &want));
    let wsk = u16::from_be_bytes(want);
    assert!(eq_bytes(&pk.to_bytes(), <G8 as rfc::RefGroup>::ser(<G8 as rfc::RefGroup>::pk(wsk)).as_slice()));
    assert!(pk == ToyKemLin::sk_to_pk(&sk));
    kani::cover!(n == 0, "empty ikm");
    kani::cover!(n == IKM, "longest ikm");
}

//@h name=c03_l3_gen_keypair_toy tier=quick mode=func also=C02 timeout=600 desc="Kem::gen_keypair(rng) == derive_keypair(the Nsk bytes drawn): exactly Nsk bytes are drawn from the caller's RNG, in one fill_bytes call" bounds="all RNG outputs; model KEM Nsk=2; LinHash; unwind 20"
#[kani::proof]
#[kani::unwind(20)]
#[kani::stub(zeroize::optimization_barrier, noop_barrier)]
pub fn c03_l3_gen_keypair_toy() {
    let bytes: [u8; RNG_CAP] = kani::any();
    let mut rng = ScriptRng::new(bytes);
    let (sk, pk) = ToyKemLin::gen_keypair(&mut rng);
    assert!(rng.pos == 2 && !rng.overflow, "exactly Nsk bytes must be drawn from the caller's RNG");
    let mut want = [0u8; 2];
    rfc::derive_sk_simple::<LinHash>(KEM_ID, &bytes[..2], &mut want);
    assert!(eq_bytes(&sk.to_bytes(), &want));
    assert!(pk == ToyKemLin::sk_to_pk(&sk));
}

//@h name=c03_l3_encap_rng_toy tier=quick mode=func also=C02 timeout=900 desc="Kem::encap(rng): ephemeral key = DeriveKeyPair(the Nsk bytes drawn), exactly Nsk bytes drawn once; result == RFC 9180 Encap with that key (plain and auth chosen symbolically)" bounds="all RNG outputs, pkR, skS; auth symbolic; LinHash; unwind 20"
#[kani::proof]
#[kani::unwind(20)]
#[kani::stub(zeroize::optimization_barrier, noop_barrier)]
pub fn c03_l3_encap_rng_toy() {
    let bytes: [u8; RNG_CAP] = kani::any();
    let mut rng = ScriptRng::new(bytes);
    let pk_r: u16 = kani::any();
    let sk_s: u16 = kani::any();
    let sks = XorPrivateKey(sk_s);
    let pks = ToyKemLin::sk_to_pk(&sks);
    let res = ToyKemLin::encap(&XorPublicKey(pk_r), Some((&sks, &pks)), &mut rng);
    assert!(rng.pos == 2 && !rng.overflow, "exactly Nsk bytes must be drawn from the caller's RNG");
    let mut e = [0u8; 2];
    rfc::derive_sk_simple::<LinHash>(KEM_ID, &bytes[..2], &mut e);
    let sk_e = u16::from_be_bytes(e);
    let want = rfc::encap::<G8, LinHash>(KEM_ID, pk_r, sk_e, Some(sk_s));
    match (res, want) {
        (Ok((ss, enc)), Some((wss, wenc))) => {
            assert!(eq_bytes(&ss.0, wss.as_slice()));
            assert!(eq_bytes(&enc.to_bytes(), wenc.as_slice()));
        }
        (Err(e), None) => assert!(e == HpkeError::EncapError),
        _ => assert!(false, "encap success/failure differs from RFC 9180"),
    }
}
