//! C01 - round trip (DESIGN.md section 2, C01).  L1 (KEM agreement) and L2 (schedule agreement)
//! live in c03.rs / c02.rs plus the agreement harness below; L3 is the inductive step of the
//! message sequence with the ideal AEAD.
use crate::c03::{enc_from, G8, KEM_ID};
use crate::models::*;
use crate::rfc9180 as rfc;
use crate::util::*;
use hpke::aead::AeadTag;
use hpke::kem::{Kem as KemTrait, ToyKemLin};
use hpke::verif_hooks::*;
use hpke::verif_model::{toy_lin_encap_with_eph, LinKdf, XorPrivateKey, XorPublicKey};
use hpke::{setup_receiver, setup_sender, Deserializable, HpkeError, OpModeR, OpModeS, PskBundle, Serializable};

type K = LinKdf;
type M = ToyKemLin;
type AI = IdealAead;

//@h name=c01_l1_kem_agreement tier=quick mode=func timeout=900 desc="KEM agreement: for every recipient key pair, ephemeral key and sender identity key (plain and auth chosen symbolically), decap on the honest recipient's side returns exactly the shared secret encap_with_eph returned" bounds="all skR, skE, skS (2^48), auth symbolic; model KEM DHKEM(XorDh,LinKdf); unwind 20"
#[kani::proof]
#[kani::unwind(20)]
#[kani::stub(zeroize::optimization_barrier, noop_barrier)]
pub fn c01_l1_kem_agreement() {
    let sk_r: u16 = kani::any();
    let sk_e: u16 = kani::any();
    let sk_s: u16 = kani::any();
    let auth: bool = kani::any();
    let skr = XorPrivateKey(sk_r);
    let pkr = M::sk_to_pk(&skr);
    let sks = XorPrivateKey(sk_s);
    let pks = M::sk_to_pk(&sks);
    let id = if auth { Some((&sks, &pks)) } else { None };
    match toy_lin_encap_with_eph(&pkr, id, XorPrivateKey(sk_e)) {
        Ok((ss, enc)) => {
            let pk_id = if auth { Some(&pks) } else { None };
            match M::decap(&skr, pk_id, &enc) {
                Ok(ss2) => assert!(eq_bytes(&ss.0, &ss2.0)),
                Err(_) => assert!(false, "decap failed on an honest encapsulation"),
            }
        }
        Err(e) => {
            assert!(e == HpkeError::EncapError);
            // only possible when a DH result is rejected by the group
            assert!(sk_e ^ sk_r == 0 || (auth && sk_s ^ sk_r == 0));
        }
    }
}

const PT: usize = 17;
const AD: usize = 3;

//@h name=c01_l3_step_in_place tier=quick mode=func timeout=1500 desc="inductive step of the message sequence, in-place detached API: from ANY pair of sender/receiver states with the same key, base nonce and counter, seal_in_place_detached then open_in_place_detached returns exactly the plaintext in a buffer of unchanged length with a separate 16-byte tag, and both sides end in the same state (counter +1, or both latched at 2^64-1)" bounds="key, base nonce, seq (all 2^64) symbolic; plaintext 0..=17 B (straddles the 16-byte block), aad 0..=3 B; ideal AEAD; unwind 20"
#[kani::proof]
#[kani::unwind(20)]
#[kani::stub(zeroize::optimization_barrier, noop_barrier)]
pub fn c01_l3_step_in_place() {
    let key: [u8; 16] = kani::any();
    let base: [u8; 12] = kani::any();
    let exp: [u8; 8] = kani::any();
    let seq: u64 = kani::any();
    let mut s = ctx_s_from_parts::<IdealAeadBig, K, M>(&key, &base, &exp, seq, false);
    let mut r = ctx_r_from_parts::<IdealAeadBig, K, M>(&key, &base, &exp, seq, false);
    let pt: [u8; PT] = kani::any();
    let len = any_len(PT);
    let aad: [u8; AD] = kani::any();
    let alen = any_len(AD);
    let mut buf = pt;
    let tag = match s.seal_in_place_detached(&mut buf[..len], &aad[..alen]) {
        Ok(t) => t,
        Err(_) => {
            assert!(false, "seal failed on a live context");
            return;
        }
    };
    assert!(tag.to_bytes().len() == 16);
    let res = r.open_in_place_detached(&mut buf[..len], &aad[..alen], &tag);
    assert!(res.is_ok());
    assert!(buf == pt);
    assert!(s.verif_seq_state() == r.verif_seq_state());
    if seq == u64::MAX {
        assert!(s.verif_seq_state() == (seq, true));
    } else {
        assert!(s.verif_seq_state() == (seq + 1, false));
    }
    assert!(!ideal().overflow);
    kani::cover!(len == PT && seq == u64::MAX, "longest message at the last sequence number");
    kani::cover!(len == 0 && alen == 0, "empty message");
}

/// the same inductive step through the allocating seal()/open(); plaintext length concrete per
/// harness (symbolic-size Vec allocations are out of reach), contents symbolic
macro_rules! step_alloc_harness {
    ($name:ident, $len:expr, $aead:ty) => {
        #[kani::proof]
        #[kani::unwind(20)]
        #[kani::stub(zeroize::optimization_barrier, noop_barrier)]
        pub fn $name() {
            const LEN: usize = $len;
            let key: [u8; 16] = kani::any();
            let base: [u8; 12] = kani::any();
            let exp: [u8; 8] = kani::any();
            let seq: u64 = kani::any();
            let mut s = ctx_s_from_parts::<$aead, K, M>(&key, &base, &exp, seq, false);
            let mut r = ctx_r_from_parts::<$aead, K, M>(&key, &base, &exp, seq, false);
            let pt: [u8; LEN] = kani::any();
            let aad: [u8; 2] = kani::any();
            let alen = any_len(2);
            let ct = match s.seal(&pt, &aad[..alen]) {
                Ok(c) => c,
                Err(_) => {
                    assert!(false, "seal failed on a live context");
                    return;
                }
            };
            assert!(ct.len() == LEN + 16);
            match r.open(&ct, &aad[..alen]) {
                Ok(p) => {
                    assert!(p.len() == LEN);
                    let mut i = 0;
                    while i < LEN {
                        assert!(p[i] == pt[i]);
                        i += 1;
                    }
                }
                Err(_) => assert!(false, "open failed on the in-sequence ciphertext"),
            }
            assert!(s.verif_seq_state() == r.verif_seq_state());
            if seq == u64::MAX {
                assert!(s.verif_seq_state() == (seq, true));
            } else {
                assert!(s.verif_seq_state() == (seq + 1, false));
            }
        }
    };
}
//@h name=c01_l3_step_alloc_len0 tier=quick mode=func timeout=1800 desc="inductive step through the allocating seal()/open() for the EMPTY plaintext: ciphertext is exactly the 16-byte tag and opens to the empty plaintext; both sides advance alike" bounds="key, base nonce, seq (all 2^64) symbolic; plaintext length 0; aad 0..=2 B; ideal AEAD; unwind 20"
step_alloc_harness!(c01_l3_step_alloc_len0, 0, IdealAead);
//@h name=c01_l3_step_alloc_len3 tier=quick mode=func timeout=1800 desc="same for a 3-byte plaintext: |ct| = |pt| + 16, opens to exactly the plaintext" bounds="plaintext length 3 (contents symbolic); otherwise as len0"
step_alloc_harness!(c01_l3_step_alloc_len3, 3, IdealAead);
//@h name=c01_l3_step_alloc_len17 tier=thorough mode=func timeout=2400 desc="same for a 17-byte plaintext (straddles the 16-byte block)" bounds="plaintext length 17 (contents symbolic)"
step_alloc_harness!(c01_l3_step_alloc_len17, 17, IdealAeadBig);

//@h name=c01_l2_setup_agreement tier=quick mode=func timeout=1800 desc="schedule agreement, end to end through the public API in AuthPsk mode (the mode that exercises every input): setup_sender with a scripted RNG, then setup_receiver with the matching private key, sender public key, PSK bundle and info: both sides hold the same key (seal on one opens on the other: first message round-trips), same base nonce, same exporter secret" bounds="all RNG outputs, skR, skS; info 0..=2 B, psk/psk_id 1..=2 B; plaintext 0..=2 B; model suite with the ideal AEAD; unwind 20"
#[kani::proof]
#[kani::unwind(20)]
#[kani::stub(zeroize::optimization_barrier, noop_barrier)]
#[kani::stub(hkdf::HkdfExtract::new, crate::fasthkdf::stub_extract_new)]
#[kani::stub(hkdf::HkdfExtract::input_ikm, crate::fasthkdf::stub_input_ikm)]
#[kani::stub(hkdf::HkdfExtract::finalize, crate::fasthkdf::stub_finalize)]
#[kani::stub(hkdf::Hkdf::from_prk, crate::fasthkdf::stub_from_prk)]
#[kani::stub(hkdf::Hkdf::expand_multi_info, crate::fasthkdf::stub_expand_multi_info)]
pub fn c01_l2_setup_agreement() {
    let bytes: [u8; RNG_CAP] = kani::any();
    let mut rng = ScriptRng::new(bytes);
    let sk_r: u16 = kani::any();
    let sk_s: u16 = kani::any();
    let info: [u8; 2] = kani::any();
    let il = any_len(2);
    let psk: [u8; 2] = kani::any();
    let pl = any_len(2);
    let pid: [u8; 2] = kani::any();
    let dl = any_len(2);
    kani::assume(pl >= 1 && dl >= 1);
    let bundle = PskBundle::new(&psk[..pl], &pid[..dl]).unwrap();
    let skr = XorPrivateKey(sk_r);
    let pkr = M::sk_to_pk(&skr);
    let sks = XorPrivateKey(sk_s);
    let pks = M::sk_to_pk(&sks);
    let ms = OpModeS::<M>::AuthPsk((sks, pks.clone()), bundle);
    let mr = OpModeR::<M>::AuthPsk(pks, bundle);
    match setup_sender::<AI, K, M, _>(&ms, &pkr, &info[..il], &mut rng) {
        Ok((enc, mut s)) => {
            // enc travels as bytes
            let enc2 = <<M as KemTrait>::EncappedKey as Deserializable>::from_bytes(&enc.to_bytes()).unwrap();
            match setup_receiver::<AI, K, M>(&mr, &skr, &enc2, &info[..il]) {
                Ok(mut r) => {
                    assert!(eq_bytes(s.verif_base_nonce(), r.verif_base_nonce()));
                    assert!(eq_bytes(s.verif_exporter_secret(), r.verif_exporter_secret()));
                    assert!(s.verif_seq_state() == (0, false) && r.verif_seq_state() == (0, false));
                    let pt: [u8; 2] = kani::any();
                    let len = any_len(2);
                    let mut buf = pt;
                    let tag = s.seal_in_place_detached(&mut buf[..len], &[]).unwrap();
                    assert!(r.open_in_place_detached(&mut buf[..len], &[], &tag).is_ok());
                    assert!(buf == pt);
                }
                Err(_) => assert!(false, "receiver setup failed on an honest encapsulation"),
            }
        }
        Err(e) => assert!(e == HpkeError::EncapError),
    }
}
