//! C05 - receiver accepts exactly the next in-sequence message (DESIGN.md section 2, C05)
use crate::models::*;
use crate::rfc9180 as rfc;
use crate::util::*;
use hpke::aead::AeadTag;
use hpke::verif_hooks::*;
use hpke::{Deserializable, HpkeError, Serializable};

type K = hpke::verif_model::LinKdf;
type M = hpke::kem::ToyKemLin;

const CT: usize = 5;
const AD: usize = 3;

//@h name=c05_l1_open_in_place_step tier=quick mode=func also=C06,C14 timeout=600 desc="one open_in_place_detached step from an arbitrary receiver state with an arbitrary AEAD verdict: exhausted => MessageLimitReached, AEAD not called, buffer and state untouched; AEAD rejects => OpenError, (seq, overflowed) unchanged; AEAD accepts => Ok, counter +1 or latch at 2^64-1; the nonce offered is base_nonce XOR BE64(seq); key/aad/ciphertext/tag passed unchanged" bounds="key, base nonce, seq (64 bit), overflowed, tag, verdict symbolic; ciphertext 0..=5 B, aad 0..=3 B; unwind 20"
#[kani::proof]
#[kani::unwind(20)]
#[kani::stub(zeroize::optimization_barrier, noop_barrier)]
pub fn c05_l1_open_in_place_step() {
    let key: [u8; 16] = kani::any();
    let base: [u8; 12] = kani::any();
    let exp: [u8; 8] = kani::any();
    let seq: u64 = kani::any();
    let ovf: bool = kani::any();
    let mut ctx = ctx_r_from_parts::<SpyAead16, K, M>(&key, &base, &exp, seq, ovf);
    let len = any_len(CT);
    let alen = any_len(AD);
    let mut buf: [u8; CT] = kani::any();
    let orig = buf;
    let aad: [u8; AD] = kani::any();
    let tagb: [u8; 16] = kani::any();
    let tag = AeadTag::<SpyAead16>::from_bytes(&tagb).unwrap();
    let dec_ok: bool = kani::any();
    spy().dec_ok = dec_ok;
    let decs0 = spy().decs;

    let res = ctx.open_in_place_detached(&mut buf[..len], &aad[..alen], &tag);
    let (seq2, ovf2) = ctx.verif_seq_state();
    if ovf {
        assert!(matches!(res, Err(HpkeError::MessageLimitReached)));
        assert!(spy().decs == decs0);
        assert!(buf == orig);
        assert!(seq2 == seq && ovf2);
    } else {
        assert!(spy().decs == decs0 + 1);
        let c = &spy().last;
        assert!(c.nonce == rfc::compute_nonce::<12>(&base, seq));
        assert!(c.key_len == 16 && c.key[..16] == key[..]);
        assert!(c.aad_len == alen && eq_bytes(&c.aad[..alen], &aad[..alen]));
        assert!(c.buf_len == len && eq_bytes(&c.buf[..len], &orig[..len]));
        assert!(c.tag == tagb);
        assert!(!spy().overflow);
        if dec_ok {
            assert!(res.is_ok());
            if seq == u64::MAX {
                assert!(ovf2 && seq2 == seq);
            } else {
                assert!(!ovf2 && seq2 == seq + 1);
            }
        } else {
            assert!(matches!(res, Err(HpkeError::OpenError)));
            assert!(seq2 == seq && !ovf2);
        }
    }
    kani::cover!(!ovf && seq == u64::MAX && dec_ok, "2^64-th success");
    kani::cover!(ovf && len == CT, "exhausted context");
}

const CTA: usize = 20;

//@h name=c05_l1_open_alloc_step tier=quick mode=full also=C13,C14,C06 timeout=1200 desc="one step of the allocating open() for every ciphertext length around the tag length: exhausted => MessageLimitReached whatever the input (including inputs shorter than a tag); len < Nt => OpenError with state unchanged and the AEAD not called; otherwise split = (input[..len-16], input[len-16..]) handed unchanged to the AEAD and the verdict decides OpenError/Ok exactly as in the in-place form; all default Kani checks on (no panic)" bounds="state fully symbolic; input length 0..=20 (Nt=16), aad 0..=3 B; unwind 20"
#[kani::proof]
#[kani::unwind(20)]
#[kani::stub(zeroize::optimization_barrier, noop_barrier)]
pub fn c05_l1_open_alloc_step() {
    let key: [u8; 16] = kani::any();
    let base: [u8; 12] = kani::any();
    let exp: [u8; 8] = kani::any();
    let seq: u64 = kani::any();
    let ovf: bool = kani::any();
    let mut ctx = ctx_r_from_parts::<SpyAead16, K, M>(&key, &base, &exp, seq, ovf);
    let len = any_len(CTA);
    let alen = any_len(AD);
    let input: [u8; CTA] = kani::any();
    let aad: [u8; AD] = kani::any();
    let dec_ok: bool = kani::any();
    spy().dec_ok = dec_ok;
    let decs0 = spy().decs;

    let res = ctx.open(&input[..len], &aad[..alen]);
    let (seq2, ovf2) = ctx.verif_seq_state();
    if ovf {
        assert!(matches!(res, Err(HpkeError::MessageLimitReached)), "exhausted context must report MessageLimitReached");
        assert!(spy().decs == decs0);
        assert!(seq2 == seq && ovf2);
    } else if len < 16 {
        assert!(matches!(res, Err(HpkeError::OpenError)));
        assert!(spy().decs == decs0);
        assert!(seq2 == seq && !ovf2);
    } else {
        assert!(spy().decs == decs0 + 1);
        let c = &spy().last;
        let ml = len - 16;
        assert!(c.nonce == rfc::compute_nonce::<12>(&base, seq));
        assert!(c.aad_len == alen && eq_bytes(&c.aad[..alen], &aad[..alen]));
        assert!(c.buf_len == ml && eq_bytes(&c.buf[..ml], &input[..ml]));
        assert!(eq_bytes(&c.tag, &input[ml..len]));
        if dec_ok {
            match res {
                Ok(pt) => {
                    assert!(pt.len() == ml);
                    let mut i = 0;
                    while i < CTA - 16 {
                        if i < ml {
                            assert!(pt[i] == input[i] ^ 0x5c);
                        }
                        i += 1;
                    }
                }
                Err(_) => assert!(false, "open must succeed when the AEAD accepts"),
            }
            if seq == u64::MAX {
                assert!(ovf2 && seq2 == seq);
            } else {
                assert!(!ovf2 && seq2 == seq + 1);
            }
        } else {
            assert!(matches!(res, Err(HpkeError::OpenError)));
            assert!(seq2 == seq && !ovf2);
        }
    }
    kani::cover!(ovf && len < 16, "short input on an exhausted context");
    kani::cover!(!ovf && len == 16 && dec_ok, "empty plaintext");
    kani::cover!(!ovf && len == CTA && dec_ok, "longest input");
}

// ---------------------------------------------------------------------------------------------
// L2: bounded adversarial histories with the ideal AEAD, straight-line scenarios
// ---------------------------------------------------------------------------------------------
type AI = IdealAead;
const PT: usize = 3;

struct Sealed {
    ct: [u8; PT],
    len: usize,
    aad: [u8; 2],
    alen: usize,
    tag: [u8; 16],
}

fn seal_one(s: &mut hpke::aead::AeadCtxS<AI, K, M>) -> (Sealed, [u8; PT]) {
    let pt: [u8; PT] = kani::any();
    let len = any_len(PT);
    let aad: [u8; 2] = kani::any();
    let alen = any_len(2);
    let mut buf = pt;
    let tag = s.seal_in_place_detached(&mut buf[..len], &aad[..alen]).unwrap();
    let mut t = [0u8; 16];
    t.copy_from_slice(&tag.to_bytes());
    (Sealed { ct: buf, len, aad, alen, tag: t }, pt)
}

/// deliver (ct, aad, tag) to the receiver; returns Ok(plaintext buffer) or the error
fn deliver(
    r: &mut hpke::aead::AeadCtxR<AI, K, M>,
    ct: &[u8; PT],
    len: usize,
    aad: &[u8; 2],
    alen: usize,
    tag: &[u8; 16],
) -> Result<[u8; PT], HpkeError> {
    let mut buf = *ct;
    let t = AeadTag::<AI>::from_bytes(tag).unwrap();
    r.open_in_place_detached(&mut buf[..len], &aad[..alen], &t)?;
    Ok(buf)
}

fn pt_eq(a: &[u8; PT], b: &[u8; PT], len: usize) -> bool {
    let mut ok = true;
    let mut i = 0;
    while i < PT {
        if i < len && a[i] != b[i] {
            ok = false;
        }
        i += 1;
    }
    ok
}

//@h name=c05_l2_hist_skip_next_replay_next tier=quick mode=func timeout=1500 desc="two messages sealed from an arbitrary common state; deliveries: #1 early (skip) => OpenError, #0 => Ok+plaintext, #0 again (replay) => OpenError, #1 => Ok+plaintext; after every delivery the receiver position equals start + number of successes" bounds="key, base nonce, seq <= 2^64-3 symbolic; plaintexts 0..=3 B, aads 0..=2 B symbolic; ideal AEAD (INT-CTXT by construction); unwind 20"
#[kani::proof]
#[kani::unwind(20)]
#[kani::stub(zeroize::optimization_barrier, noop_barrier)]
pub fn c05_l2_hist_skip_next_replay_next() {
    let key: [u8; 16] = kani::any();
    let base: [u8; 12] = kani::any();
    let exp: [u8; 8] = kani::any();
    let seq: u64 = kani::any();
    kani::assume(seq <= u64::MAX - 2);
    let mut s = ctx_s_from_parts::<AI, K, M>(&key, &base, &exp, seq, false);
    let mut r = ctx_r_from_parts::<AI, K, M>(&key, &base, &exp, seq, false);
    let (m0, p0) = seal_one(&mut s);
    let (m1, p1) = seal_one(&mut s);
    // skip
    assert!(matches!(deliver(&mut r, &m1.ct, m1.len, &m1.aad, m1.alen, &m1.tag), Err(HpkeError::OpenError)));
    assert!(r.verif_seq_state() == (seq, false));
    // next
    match deliver(&mut r, &m0.ct, m0.len, &m0.aad, m0.alen, &m0.tag) {
        Ok(b) => assert!(pt_eq(&b, &p0, m0.len)),
        Err(_) => assert!(false, "in-sequence message rejected"),
    }
    assert!(r.verif_seq_state() == (seq + 1, false));
    // replay
    assert!(matches!(deliver(&mut r, &m0.ct, m0.len, &m0.aad, m0.alen, &m0.tag), Err(HpkeError::OpenError)));
    assert!(r.verif_seq_state() == (seq + 1, false));
    // next
    match deliver(&mut r, &m1.ct, m1.len, &m1.aad, m1.alen, &m1.tag) {
        Ok(b) => assert!(pt_eq(&b, &p1, m1.len)),
        Err(_) => assert!(false, "in-sequence message rejected"),
    }
    assert!(r.verif_seq_state() == (seq + 2, false));
    assert!(!ideal().overflow);
    kani::cover!(seq == u64::MAX - 2 && m0.len == PT && m1.len == 0, "top of the counter range");
}

//@h name=c05_l2_hist_tamper_then_next tier=quick mode=func timeout=1500 desc="one message sealed from an arbitrary common state incl. seq = 2^64-1; deliveries: copy with one flipped bit at a symbolic position in ciphertext, tag or aad => OpenError and position unchanged; truncated copy => OpenError; original => Ok+plaintext, position +1 (or latched); original again => OpenError or MessageLimitReached when latched" bounds="key, base nonce, seq (all 2^64) symbolic; plaintext 1..=3 B, aad 1..=2 B; flip position symbolic over all ciphertext/tag/aad bits; ideal AEAD; unwind 20"
#[kani::proof]
#[kani::unwind(20)]
#[kani::stub(zeroize::optimization_barrier, noop_barrier)]
pub fn c05_l2_hist_tamper_then_next() {
    let key: [u8; 16] = kani::any();
    let base: [u8; 12] = kani::any();
    let exp: [u8; 8] = kani::any();
    let seq: u64 = kani::any();
    let mut s = ctx_s_from_parts::<AI, K, M>(&key, &base, &exp, seq, false);
    let mut r = ctx_r_from_parts::<AI, K, M>(&key, &base, &exp, seq, false);
    let (m0, p0) = seal_one(&mut s);
    kani::assume(m0.len >= 1 && m0.alen >= 1);
    // one flipped bit somewhere
    let which: u8 = kani::any();
    let pos: usize = kani::any();
    let bit: u8 = kani::any();
    kani::assume(bit < 8);
    let mut ct = m0.ct;
    let mut aad = m0.aad;
    let mut tag = m0.tag;
    match which {
        0 => {
            kani::assume(pos < m0.len);
            ct[pos] ^= 1 << bit;
        }
        1 => {
            kani::assume(pos < m0.alen);
            aad[pos] ^= 1 << bit;
        }
        _ => {
            kani::assume(pos < 16);
            tag[pos] ^= 1 << bit;
        }
    }
    assert!(matches!(deliver(&mut r, &ct, m0.len, &aad, m0.alen, &tag), Err(HpkeError::OpenError)));
    assert!(r.verif_seq_state() == (seq, false));
    // truncated ciphertext / truncated aad
    assert!(matches!(deliver(&mut r, &m0.ct, m0.len - 1, &m0.aad, m0.alen, &m0.tag), Err(HpkeError::OpenError)));
    assert!(matches!(deliver(&mut r, &m0.ct, m0.len, &m0.aad, m0.alen - 1, &m0.tag), Err(HpkeError::OpenError)));
    assert!(r.verif_seq_state() == (seq, false));
    // the original
    match deliver(&mut r, &m0.ct, m0.len, &m0.aad, m0.alen, &m0.tag) {
        Ok(b) => assert!(pt_eq(&b, &p0, m0.len)),
        Err(_) => assert!(false, "in-sequence message rejected"),
    }
    if seq == u64::MAX {
        assert!(r.verif_seq_state() == (seq, true));
        assert!(matches!(deliver(&mut r, &m0.ct, m0.len, &m0.aad, m0.alen, &m0.tag), Err(HpkeError::MessageLimitReached)));
    } else {
        assert!(r.verif_seq_state() == (seq + 1, false));
        assert!(matches!(deliver(&mut r, &m0.ct, m0.len, &m0.aad, m0.alen, &m0.tag), Err(HpkeError::OpenError)));
    }
    kani::cover!(which == 0 && seq == u64::MAX, "ciphertext flip at the last sequence number");
    kani::cover!(which == 1, "aad flip");
    kani::cover!(which == 2 && pos == 15, "tag flip");
}

//@h name=c05_l2_hist_three_messages tier=thorough mode=func timeout=3600 desc="three messages sealed from an arbitrary common state; deliveries: #2 (future) => OpenError, #0 => Ok, #2 => OpenError, #1 => Ok, #1 (replay) => OpenError, #0 (old replay) => OpenError, #2 => Ok; after every delivery the receiver position equals start + number of successes and accepted plaintexts are the sealed ones" bounds="key, base nonce, seq <= 2^64-4 symbolic; plaintexts 0..=3 B, aads 0..=2 B; ideal AEAD; unwind 20"
#[kani::proof]
#[kani::unwind(20)]
#[kani::stub(zeroize::optimization_barrier, noop_barrier)]
pub fn c05_l2_hist_three_messages() {
    let key: [u8; 16] = kani::any();
    let base: [u8; 12] = kani::any();
    let exp: [u8; 8] = kani::any();
    let seq: u64 = kani::any();
    kani::assume(seq <= u64::MAX - 3);
    let mut s = ctx_s_from_parts::<AI, K, M>(&key, &base, &exp, seq, false);
    let mut r = ctx_r_from_parts::<AI, K, M>(&key, &base, &exp, seq, false);
    let (m0, p0) = seal_one(&mut s);
    let (m1, p1) = seal_one(&mut s);
    let (m2, p2) = seal_one(&mut s);
    assert!(matches!(deliver(&mut r, &m2.ct, m2.len, &m2.aad, m2.alen, &m2.tag), Err(HpkeError::OpenError)));
    assert!(r.verif_seq_state() == (seq, false));
    match deliver(&mut r, &m0.ct, m0.len, &m0.aad, m0.alen, &m0.tag) {
        Ok(b) => assert!(pt_eq(&b, &p0, m0.len)),
        Err(_) => assert!(false, "in-sequence message rejected"),
    }
    assert!(matches!(deliver(&mut r, &m2.ct, m2.len, &m2.aad, m2.alen, &m2.tag), Err(HpkeError::OpenError)));
    assert!(r.verif_seq_state() == (seq + 1, false));
    match deliver(&mut r, &m1.ct, m1.len, &m1.aad, m1.alen, &m1.tag) {
        Ok(b) => assert!(pt_eq(&b, &p1, m1.len)),
        Err(_) => assert!(false, "in-sequence message rejected"),
    }
    assert!(matches!(deliver(&mut r, &m1.ct, m1.len, &m1.aad, m1.alen, &m1.tag), Err(HpkeError::OpenError)));
    assert!(matches!(deliver(&mut r, &m0.ct, m0.len, &m0.aad, m0.alen, &m0.tag), Err(HpkeError::OpenError)));
    assert!(r.verif_seq_state() == (seq + 2, false));
    match deliver(&mut r, &m2.ct, m2.len, &m2.aad, m2.alen, &m2.tag) {
        Ok(b) => assert!(pt_eq(&b, &p2, m2.len)),
        Err(_) => assert!(false, "in-sequence message rejected"),
    }
    assert!(r.verif_seq_state() == (seq + 3, false));
    assert!(!ideal().overflow);
}
