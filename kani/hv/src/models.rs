//! Model primitives that can live outside the hpke crate because the traits they implement
//! (`hpke::aead::Aead`, `rand_core::{RngCore, CryptoRng}`) are public.  See DESIGN.md section 1.2.

#![allow(static_mut_refs)]

use aead::{AeadCore, AeadInPlace, KeyInit, KeySizeUser};
use hpke::generic_array::{
    typenum::{U12, U16, U32},
    GenericArray,
};
use hpke::rand_core::{CryptoRng, RngCore};

pub const AAD_CAP: usize = 8;
pub const MSG_CAP: usize = 18;

// -------------------------------------------------------------------------------------------
// SpyAead: "any AEAD whatsoever".  Records exactly what hpke hands to the primitive; the verdict
// of decrypt / encrypt and the tag returned are chosen by the harness (symbolic).
// -------------------------------------------------------------------------------------------

#[derive(Clone, Copy)]
pub struct SpyCall {
    pub key: [u8; 32],
    pub key_len: usize,
    pub nonce: [u8; 12],
    pub aad: [u8; AAD_CAP],
    pub aad_len: usize,
    pub buf: [u8; MSG_CAP],
    pub buf_len: usize,
    pub tag: [u8; 16],
}

pub const SPY_EMPTY: SpyCall = SpyCall {
    key: [0; 32],
    key_len: 0,
    nonce: [0; 12],
    aad: [0; AAD_CAP],
    aad_len: 0,
    buf: [0; MSG_CAP],
    buf_len: 0,
    tag: [0; 16],
};

pub struct SpyLog {
    /// number of `KeyInit::new` calls and the last key seen
    pub news: u32,
    pub new_key: [u8; 32],
    pub new_key_len: usize,
    /// number of encrypt / decrypt calls and the arguments of the last one
    pub encs: u32,
    pub decs: u32,
    pub last: SpyCall,
    /// harness-chosen behaviour
    pub enc_ok: bool,
    pub dec_ok: bool,
    pub next_tag: [u8; 16],
    /// set if an argument did not fit the log (harness asserts it stays false)
    pub overflow: bool,
}

pub static mut SPY: SpyLog = SpyLog {
    news: 0,
    new_key: [0; 32],
    new_key_len: 0,
    encs: 0,
    decs: 0,
    last: SPY_EMPTY,
    enc_ok: true,
    dec_ok: true,
    next_tag: [0; 16],
    overflow: false,
};

pub fn spy() -> &'static mut SpyLog {
    unsafe { &mut *core::ptr::addr_of_mut!(SPY) }
}

#[derive(Clone)]
pub struct SpyImpl<K: aead::generic_array::ArrayLength<u8>> {
    key: [u8; 32],
    key_len: usize,
    _k: core::marker::PhantomData<K>,
}

fn record(
    key: &[u8; 32],
    key_len: usize,
    nonce: &[u8],
    aad: &[u8],
    buf: &[u8],
    tag: &[u8],
) -> SpyCall {
    let mut c = SPY_EMPTY;
    c.key = *key;
    c.key_len = key_len;
    c.nonce.copy_from_slice(nonce);
    if aad.len() > AAD_CAP || buf.len() > MSG_CAP {
        spy().overflow = true;
    } else {
        c.aad[..aad.len()].copy_from_slice(aad);
        c.aad_len = aad.len();
        c.buf[..buf.len()].copy_from_slice(buf);
        c.buf_len = buf.len();
    }
    c.tag.copy_from_slice(tag);
    c
}

impl<K: aead::generic_array::ArrayLength<u8>> KeySizeUser for SpyImpl<K> {
    type KeySize = K;
}
impl<K: aead::generic_array::ArrayLength<u8>> KeyInit for SpyImpl<K> {
    fn new(key: &aead::Key<Self>) -> Self {
        let mut k = [0u8; 32];
        k[..key.len()].copy_from_slice(key);
        let s = spy();
        s.news = s.news.wrapping_add(1);
        s.new_key = k;
        s.new_key_len = key.len();
        SpyImpl {
            key: k,
            key_len: key.len(),
            _k: core::marker::PhantomData,
        }
    }
}
impl<K: aead::generic_array::ArrayLength<u8>> AeadCore for SpyImpl<K> {
    type NonceSize = U12;
    type TagSize = U16;
    type CiphertextOverhead = aead::consts::U0;
}
impl<K: aead::generic_array::ArrayLength<u8>> AeadInPlace for SpyImpl<K> {
    fn encrypt_in_place_detached(
        &self,
        nonce: &aead::Nonce<Self>,
        aad: &[u8],
        buffer: &mut [u8],
    ) -> Result<aead::Tag<Self>, aead::Error> {
        let s = spy();
        s.encs = s.encs.wrapping_add(1);
        s.last = record(&self.key, self.key_len, nonce, aad, buffer, &[0u8; 16]);
        // visible, invertible change of the buffer (constant trip count, length test inside)
        let blen = buffer.len();
        let mut i = 0;
        while i < MSG_CAP {
            if i < blen {
                buffer[i] ^= 0x5c;
            }
            i += 1;
        }
        if s.enc_ok {
            Ok(GenericArray::clone_from_slice(&s.next_tag))
        } else {
            Err(aead::Error)
        }
    }
    fn decrypt_in_place_detached(
        &self,
        nonce: &aead::Nonce<Self>,
        aad: &[u8],
        buffer: &mut [u8],
        tag: &aead::Tag<Self>,
    ) -> Result<(), aead::Error> {
        let s = spy();
        s.decs = s.decs.wrapping_add(1);
        s.last = record(&self.key, self.key_len, nonce, aad, buffer, tag);
        if s.dec_ok {
            let blen = buffer.len();
            let mut i = 0;
            while i < MSG_CAP {
                if i < blen {
                    buffer[i] ^= 0x5c;
                }
                i += 1;
            }
            Ok(())
        } else {
            Err(aead::Error)
        }
    }
}

/// AES-128-GCM shape: Nk=16, Nn=12, Nt=16
pub struct SpyAead16;
impl hpke::aead::Aead for SpyAead16 {
    type AeadImpl = SpyImpl<U16>;
    const AEAD_ID: u16 = 0x7401;
}
/// AES-256-GCM / ChaCha20Poly1305 shape: Nk=32, Nn=12, Nt=16
pub struct SpyAead32;
impl hpke::aead::Aead for SpyAead32 {
    type AeadImpl = SpyImpl<U32>;
    const AEAD_ID: u16 = 0x7402;
}
/// Same shape as SpyAead32 but a different identifier (C07: AES-256-GCM vs ChaCha20Poly1305)
pub struct SpyAead32B;
impl hpke::aead::Aead for SpyAead32B {
    type AeadImpl = SpyImpl<U32>;
    const AEAD_ID: u16 = 0x7403;
}

// -------------------------------------------------------------------------------------------
// IdealAead: an ideal AEAD.  encrypt applies an invertible keystream and *logs*
// (key, nonce, aad, ct, tag); decrypt accepts iff its arguments equal a logged entry
// (INT-CTXT by construction), then inverts the keystream.
// All loops have CONSTANT trip counts (CAP / AAD cap) with the length test inside, so that the
// symbolic executor unrolls them exactly that often instead of up to the unwind limit.
// `IdealImpl<CAP>`: CAP = largest message the instance handles (4 for most harnesses, 20 where
// messages straddle the 16-byte block).
// -------------------------------------------------------------------------------------------

pub const IDEAL_LOG_CAP: usize = 4;
pub const IDEAL_AAD_CAP: usize = 4;
pub const IDEAL_MSG_CAP: usize = 18;

#[derive(Clone, Copy)]
pub struct IdealEntry {
    pub key: [u8; 16],
    pub nonce: [u8; 12],
    pub aad: [u8; IDEAL_AAD_CAP],
    pub aad_len: usize,
    pub ct: [u8; IDEAL_MSG_CAP],
    pub ct_len: usize,
    pub tag: [u8; 16],
}
pub const IDEAL_EMPTY: IdealEntry = IdealEntry {
    key: [0; 16],
    nonce: [0; 12],
    aad: [0; IDEAL_AAD_CAP],
    aad_len: 0,
    ct: [0; IDEAL_MSG_CAP],
    ct_len: 0,
    tag: [0; 16],
};
pub struct IdealLog {
    pub n: usize,
    pub e: [IdealEntry; IDEAL_LOG_CAP],
    pub overflow: bool,
    pub encs: u32,
    pub decs: u32,
}
pub static mut IDEAL: IdealLog = IdealLog {
    n: 0,
    e: [IDEAL_EMPTY; IDEAL_LOG_CAP],
    overflow: false,
    encs: 0,
    decs: 0,
};
pub fn ideal() -> &'static mut IdealLog {
    unsafe { &mut *core::ptr::addr_of_mut!(IDEAL) }
}

#[derive(Clone)]
pub struct IdealImpl<const CAP: usize> {
    pub key: [u8; 16],
}
fn keystream(key: &[u8; 16], nonce: &[u8], i: usize) -> u8 {
    key[i % 16] ^ nonce[i % 12] ^ (i as u8).wrapping_add(0x3d)
}
impl<const CAP: usize> KeySizeUser for IdealImpl<CAP> {
    type KeySize = U16;
}
impl<const CAP: usize> KeyInit for IdealImpl<CAP> {
    fn new(key: &aead::Key<Self>) -> Self {
        let mut k = [0u8; 16];
        k.copy_from_slice(key);
        IdealImpl { key: k }
    }
}
impl<const CAP: usize> AeadCore for IdealImpl<CAP> {
    type NonceSize = U12;
    type TagSize = U16;
    type CiphertextOverhead = aead::consts::U0;
}
impl<const CAP: usize> AeadInPlace for IdealImpl<CAP> {
    fn encrypt_in_place_detached(
        &self,
        nonce: &aead::Nonce<Self>,
        aad: &[u8],
        buffer: &mut [u8],
    ) -> Result<aead::Tag<Self>, aead::Error> {
        let l = ideal();
        l.encs = l.encs.wrapping_add(1);
        let blen = buffer.len();
        let alen = aad.len();
        if blen > CAP || alen > IDEAL_AAD_CAP || l.n >= IDEAL_LOG_CAP {
            l.overflow = true;
            return Err(aead::Error);
        }
        let mut n12 = [0u8; 12];
        n12.copy_from_slice(nonce);
        let mut e = IDEAL_EMPTY;
        e.key = self.key;
        e.nonce = n12;
        e.aad_len = alen;
        e.ct_len = blen;
        // tag: nonce || 4-byte mix of key/aad/ct (its exact value is irrelevant: decrypt checks the log)
        let mut acc: u32 = 0x9e37_79b9;
        let mut i = 0;
        while i < 16 {
            acc = acc.rotate_left(5) ^ (self.key[i] as u32);
            i += 1;
        }
        let mut i = 0;
        while i < IDEAL_AAD_CAP {
            if i < alen {
                e.aad[i] = aad[i];
                acc = acc.rotate_left(5) ^ (aad[i] as u32);
            }
            i += 1;
        }
        let mut i = 0;
        while i < CAP {
            if i < blen {
                let c = buffer[i] ^ keystream(&self.key, &n12, i);
                buffer[i] = c;
                e.ct[i] = c;
                acc = acc.rotate_left(5) ^ (c as u32);
            }
            i += 1;
        }
        let mut tag = [0u8; 16];
        tag[..12].copy_from_slice(&n12);
        tag[12..].copy_from_slice(&acc.to_be_bytes());
        e.tag = tag;
        l.e[l.n] = e;
        l.n += 1;
        Ok(GenericArray::clone_from_slice(&tag))
    }
    fn decrypt_in_place_detached(
        &self,
        nonce: &aead::Nonce<Self>,
        aad: &[u8],
        buffer: &mut [u8],
        tag: &aead::Tag<Self>,
    ) -> Result<(), aead::Error> {
        let l = ideal();
        l.decs = l.decs.wrapping_add(1);
        let blen = buffer.len();
        let alen = aad.len();
        if blen > CAP || alen > IDEAL_AAD_CAP {
            l.overflow = true;
            return Err(aead::Error);
        }
        let mut n12 = [0u8; 12];
        n12.copy_from_slice(nonce);
        let mut t16 = [0u8; 16];
        t16.copy_from_slice(tag);
        // zero-padded copies so that whole arrays can be compared
        let mut a = [0u8; IDEAL_AAD_CAP];
        let mut i = 0;
        while i < IDEAL_AAD_CAP {
            if i < alen {
                a[i] = aad[i];
            }
            i += 1;
        }
        let mut c = [0u8; IDEAL_MSG_CAP];
        let mut i = 0;
        while i < CAP {
            if i < blen {
                c[i] = buffer[i];
            }
            i += 1;
        }
        let mut hit = false;
        let mut k = 0;
        while k < IDEAL_LOG_CAP {
            if k < l.n {
                let e = &l.e[k];
                if e.key == self.key && e.nonce == n12 && e.tag == t16 && e.aad_len == alen && e.ct_len == blen && e.aad == a && e.ct == c {
                    hit = true;
                }
            }
            k += 1;
        }
        if !hit {
            return Err(aead::Error);
        }
        let mut i = 0;
        while i < CAP {
            if i < blen {
                buffer[i] ^= keystream(&self.key, &n12, i);
            }
            i += 1;
        }
        Ok(())
    }
}
/// ideal AEAD for messages up to 4 bytes
pub struct IdealAead;
impl hpke::aead::Aead for IdealAead {
    type AeadImpl = IdealImpl<4>;
    const AEAD_ID: u16 = 0x7501;
}
/// Same primitive, different identifier
pub struct IdealAeadB;
impl hpke::aead::Aead for IdealAeadB {
    type AeadImpl = IdealImpl<4>;
    const AEAD_ID: u16 = 0x7502;
}
/// ideal AEAD for messages up to 18 bytes (block-straddling lengths)
pub struct IdealAeadBig;
impl hpke::aead::Aead for IdealAeadBig {
    type AeadImpl = IdealImpl<18>;
    const AEAD_ID: u16 = 0x7501;
}

// -------------------------------------------------------------------------------------------
// ScriptRng: the caller's RNG.  Hands out harness-chosen (symbolic) bytes and keeps a ledger.
// -------------------------------------------------------------------------------------------

pub const RNG_CAP: usize = 72;

pub struct ScriptRng {
    pub bytes: [u8; RNG_CAP],
    pub pos: usize,
    pub fill_calls: u32,
    pub other_calls: u32,
    pub overflow: bool,
}
impl ScriptRng {
    pub fn new(bytes: [u8; RNG_CAP]) -> Self {
        ScriptRng {
            bytes,
            pos: 0,
            fill_calls: 0,
            other_calls: 0,
            overflow: false,
        }
    }
    fn take(&mut self) -> u8 {
        if self.pos < RNG_CAP {
            let b = self.bytes[self.pos];
            self.pos += 1;
            b
        } else {
            self.overflow = true;
            0
        }
    }
}
impl RngCore for ScriptRng {
    fn next_u32(&mut self) -> u32 {
        self.other_calls += 1;
        u32::from_le_bytes([self.take(), self.take(), self.take(), self.take()])
    }
    fn next_u64(&mut self) -> u64 {
        self.other_calls += 1;
        let lo = u32::from_le_bytes([self.take(), self.take(), self.take(), self.take()]) as u64;
        let hi = u32::from_le_bytes([self.take(), self.take(), self.take(), self.take()]) as u64;
        lo | (hi << 32)
    }
    fn fill_bytes(&mut self, dst: &mut [u8]) {
        self.fill_calls += 1;
        for d in dst.iter_mut() {
            *d = self.take();
        }
    }
}
impl CryptoRng for ScriptRng {}
