//! micro-benchmarks of the symbolic-execution cost of the KDF plumbing (not part of any claim)
use crate::util::*;
use hpke::kdf::{labeled_extract, LabeledExpand};
use hpke::verif_model::{LinHash, LinKdf};

#[kani::proof]
#[kani::unwind(20)]
pub fn bench_extract_concrete() {
    let (prk, _) = labeled_extract::<LinKdf>(&[], b"KEMxx", b"eae_prk", &[1, 2]);
    assert!(prk.len() == 8);
}
#[kani::proof]
#[kani::unwind(20)]
pub fn bench_extract_symcontent() {
    let ikm: [u8; 2] = kani::any();
    let (prk, _) = labeled_extract::<LinKdf>(&[], b"KEMxx", b"eae_prk", &ikm);
    assert!(prk.len() == 8);
}
#[kani::proof]
#[kani::unwind(20)]
pub fn bench_extract_symlen() {
    let ikm: [u8; 2] = kani::any();
    let n = any_len(2);
    let (prk, _) = labeled_extract::<LinKdf>(&[], b"KEMxx", b"eae_prk", &ikm[..n]);
    assert!(prk.len() == 8);
}
#[kani::proof]
#[kani::unwind(20)]
pub fn bench_extract_expand() {
    let ikm: [u8; 2] = kani::any();
    let (_, ctx) = labeled_extract::<LinKdf>(&[], b"KEMxx", b"eae_prk", &ikm);
    let mut out = [0u8; 8];
    ctx.labeled_expand(b"KEMxx", b"shared_secret", &[1, 2, 3, 4], &mut out).unwrap();
    assert!(out.len() == 8);
}
#[kani::proof]
#[kani::unwind(20)]
pub fn bench_ref_extract_expand() {
    use crate::rfc9180 as rfc;
    let ikm: [u8; 2] = kani::any();
    let prk = rfc::labeled_extract::<LinHash>(&[], b"KEMxx", b"eae_prk", &ikm);
    let mut out = [0u8; 8];
    rfc::labeled_expand::<LinHash>(prk.as_slice(), b"KEMxx", b"shared_secret", &[1, 2, 3, 4], &mut out);
    assert!(out.len() == 8);
}

use crate::c03::enc_from;
use crate::models::*;
use hpke::kem::{Kem as KemTrait, ToyKemLin};
use hpke::verif_model::{XorPrivateKey, XorPublicKey};
use hpke::{setup_receiver, OpModeR};

#[kani::proof]
#[kani::unwind(20)]
#[kani::stub(zeroize::optimization_barrier, noop_barrier)]
pub fn bench_setup_r_concrete() {
    let r = setup_receiver::<SpyAead16, LinKdf, ToyKemLin>(&OpModeR::Base, &XorPrivateKey(0x1234), &enc_from(0x4321), &[]);
    assert!(r.is_ok());
}
#[kani::proof]
#[kani::unwind(20)]
#[kani::stub(zeroize::optimization_barrier, noop_barrier)]
pub fn bench_setup_r_symkeys() {
    let sk: u16 = kani::any();
    let e: u16 = kani::any();
    let r = setup_receiver::<SpyAead16, LinKdf, ToyKemLin>(&OpModeR::Base, &XorPrivateKey(sk), &enc_from(e), &[]);
    if let Ok(c) = r {
        assert!(c.verif_seq_state() == (0, false));
    }
}
#[kani::proof]
#[kani::unwind(20)]
#[kani::stub(zeroize::optimization_barrier, noop_barrier)]
pub fn bench_setup_r_syminfo() {
    let sk: u16 = kani::any();
    let e: u16 = kani::any();
    let info: [u8; 2] = kani::any();
    let il = any_len(2);
    let r = setup_receiver::<SpyAead16, LinKdf, ToyKemLin>(&OpModeR::Base, &XorPrivateKey(sk), &enc_from(e), &info[..il]);
    if let Ok(c) = r {
        assert!(c.verif_seq_state() == (0, false));
    }
}
#[kani::proof]
#[kani::unwind(20)]
#[kani::stub(zeroize::optimization_barrier, noop_barrier)]
pub fn bench_decap_sym() {
    let sk: u16 = kani::any();
    let e: u16 = kani::any();
    let r = ToyKemLin::decap(&XorPrivateKey(sk), None, &enc_from(e));
    if let Ok(s) = r {
        assert!(s.0.len() == 8);
    }
}
#[kani::proof]
#[kani::unwind(20)]
pub fn bench_ref_schedule() {
    use crate::rfc9180 as rfc;
    let ss: [u8; 8] = kani::any();
    let info: [u8; 2] = kani::any();
    let il = any_len(2);
    let suite = rfc::full_suite_id(1, 2, 3);
    let s = rfc::key_schedule::<LinHash>(0, &ss, &info[..il], &[], &[], &suite, 16, 12);
    assert!(s.key.n == 16);
}

use digest::{Digest, FixedOutput, KeyInit, Mac, Update};
use hpke::generic_array::{typenum::U8, GenericArray};

#[kani::proof]
#[kani::unwind(20)]
pub fn bench_p1_hmac_new() {
    let key: [u8; 8] = kani::any();
    let h = <hmac::SimpleHmac<LinHash> as KeyInit>::new_from_slice(&key).unwrap();
    core::mem::forget(h);
}
#[kani::proof]
#[kani::unwind(20)]
pub fn bench_p2_ga_default() {
    let g = GenericArray::<u8, U8>::default();
    assert!(g[0] == 0);
}
#[kani::proof]
#[kani::unwind(20)]
pub fn bench_p3_hash() {
    let m: [u8; 8] = kani::any();
    let mut d = LinHash::new();
    Digest::update(&mut d, &m);
    let o = d.finalize();
    assert!(o.len() == 8);
}
#[kani::proof]
#[kani::unwind(20)]
pub fn bench_p4_hmac_full() {
    let key: [u8; 8] = kani::any();
    let m: [u8; 8] = kani::any();
    let mut h = <hmac::SimpleHmac<LinHash> as KeyInit>::new_from_slice(&key).unwrap();
    Update::update(&mut h, &m);
    let o = h.finalize_fixed();
    assert!(o.len() == 8);
}
#[kani::proof]
#[kani::unwind(20)]
pub fn bench_p5_ga_clone_from_slice() {
    let m: [u8; 8] = kani::any();
    let g = GenericArray::<u8, U8>::clone_from_slice(&m);
    assert!(g[0] == m[0]);
}

#[kani::proof]
#[kani::unwind(34)]
#[kani::stub(zeroize::optimization_barrier, noop_barrier)]
#[kani::stub(hkdf::HkdfExtract::new, crate::fasthkdf::stub_extract_new)]
#[kani::stub(hkdf::HkdfExtract::input_ikm, crate::fasthkdf::stub_input_ikm)]
#[kani::stub(hkdf::HkdfExtract::finalize, crate::fasthkdf::stub_finalize)]
#[kani::stub(hkdf::Hkdf::from_prk, crate::fasthkdf::stub_from_prk)]
#[kani::stub(hkdf::Hkdf::expand_multi_info, crate::fasthkdf::stub_expand_multi_info)]
pub fn bench_setup_r_stubbed() {
    use crate::rfc9180 as rfc;
    let sk: u16 = kani::any();
    let e: u16 = kani::any();
    let info: [u8; 2] = kani::any();
    let il = any_len(2);
    let r = setup_receiver::<SpyAead16, LinKdf, ToyKemLin>(&OpModeR::Base, &XorPrivateKey(sk), &enc_from(e), &info[..il]);
    let wss = rfc::decap::<crate::c03::G8, LinHash>(0x7a01, e, sk, None);
    match (r, wss) {
        (Ok(ctx), Some(ss)) => {
            let suite = rfc::full_suite_id(0x7a01, 0x7101, 0x7401);
            let sched = rfc::key_schedule::<LinHash>(0, ss.as_slice(), &info[..il], &[], &[], &suite, 16, 12);
            assert!(eq_bytes(&spy().new_key[..16], sched.key.as_slice()));
            assert!(eq_bytes(ctx.verif_base_nonce(), sched.base_nonce.as_slice()));
            assert!(eq_bytes(ctx.verif_exporter_secret(), sched.exporter_secret.as_slice()));
            assert!(!crate::fasthkdf::arena_overflowed());
        }
        (Err(_), None) => {}
        _ => assert!(false),
    }
}

use hpke::verif_hooks::*;
#[kani::proof]
#[kani::unwind(20)]
#[kani::stub(zeroize::optimization_barrier, noop_barrier)]
#[kani::stub(hkdf::HkdfExtract::new, crate::fasthkdf::stub_extract_new)]
#[kani::stub(hkdf::HkdfExtract::input_ikm, crate::fasthkdf::stub_input_ikm)]
#[kani::stub(hkdf::HkdfExtract::finalize, crate::fasthkdf::stub_finalize)]
#[kani::stub(hkdf::Hkdf::from_prk, crate::fasthkdf::stub_from_prk)]
#[kani::stub(hkdf::Hkdf::expand_multi_info, crate::fasthkdf::stub_expand_multi_info)]
pub fn dbg_export_ovf_stubbed() {
    let exp: [u8; 8] = kani::any();
    let r0 = ctx_r_from_parts::<SpyAead16, LinKdf, ToyKemLin>(&[1; 16], &[2; 12], &exp, 0, false);
    let r1 = ctx_r_from_parts::<SpyAead16, LinKdf, ToyKemLin>(&[1; 16], &[2; 12], &exp, 5, true);
    assert!(r0.verif_suite_id() == r1.verif_suite_id());
    assert!(eq_bytes(r0.verif_exporter_secret(), r1.verif_exporter_secret()));
    let mut a = [0u8; 5];
    let mut b = [0u8; 5];
    r0.export(&[], &mut a).unwrap();
    r1.export(&[], &mut b).unwrap();
    assert!(a == b);
}
#[kani::proof]
#[kani::unwind(20)]
#[kani::stub(zeroize::optimization_barrier, noop_barrier)]
pub fn dbg_export_ovf_real() {
    let exp: [u8; 8] = kani::any();
    let r0 = ctx_r_from_parts::<SpyAead16, LinKdf, ToyKemLin>(&[1; 16], &[2; 12], &exp, 0, false);
    let r1 = ctx_r_from_parts::<SpyAead16, LinKdf, ToyKemLin>(&[1; 16], &[2; 12], &exp, 5, true);
    let mut a = [0u8; 5];
    let mut b = [0u8; 5];
    r0.export(&[], &mut a).unwrap();
    r1.export(&[], &mut b).unwrap();
    assert!(a == b);
}

macro_rules! dbg_frame {
    ($name:ident, $symctx:expr, $symseq:expr, $mk_r:expr) => {
        #[kani::proof]
        #[kani::unwind(20)]
        #[kani::stub(zeroize::optimization_barrier, noop_barrier)]
        #[kani::stub(hkdf::HkdfExtract::new, crate::fasthkdf::stub_extract_new)]
        #[kani::stub(hkdf::HkdfExtract::input_ikm, crate::fasthkdf::stub_input_ikm)]
        #[kani::stub(hkdf::HkdfExtract::finalize, crate::fasthkdf::stub_finalize)]
        #[kani::stub(hkdf::Hkdf::from_prk, crate::fasthkdf::stub_from_prk)]
        #[kani::stub(hkdf::Hkdf::expand_multi_info, crate::fasthkdf::stub_expand_multi_info)]
        pub fn $name() {
            let key: [u8; 16] = kani::any();
            let base: [u8; 12] = kani::any();
            let exp: [u8; 8] = kani::any();
            let seq: u64 = kani::any();
            if $mk_r {
                let _r = ctx_r_from_parts::<SpyAead16, LinKdf, ToyKemLin>(&key, &base, &exp, seq, false);
            }
            let r0 = ctx_r_from_parts::<SpyAead16, LinKdf, ToyKemLin>(&key, &base, &exp, 0, false);
            let s1: u64 = if $symseq { kani::any() } else { 5 };
            let r1 = ctx_r_from_parts::<SpyAead16, LinKdf, ToyKemLin>(&key, &base, &exp, s1, true);
            let xc: [u8; 2] = kani::any();
            let xl = if $symctx { any_len(2) } else { 1 };
            let mut a = [0u8; 5];
            let mut b = [0u8; 5];
            r0.export(&xc[..xl], &mut a).unwrap();
            r1.export(&xc[..xl], &mut b).unwrap();
            assert!(a == b);
        }
    };
}
dbg_frame!(dbg_frame_a, false, false, false);
dbg_frame!(dbg_frame_b, true, false, false);
dbg_frame!(dbg_frame_c, false, true, false);
dbg_frame!(dbg_frame_d, true, true, true);

use hpke::kem::DhP256HkdfSha256;
use hpke::Deserializable;
#[kani::proof]
#[kani::unwind(140)]
pub fn dbg_tag_concrete_all() {
    let b = [2u8; 65];
    let r = <<DhP256HkdfSha256 as KemTrait>::PublicKey as Deserializable>::from_bytes(&b);
    assert!(r.is_err());
}
#[kani::proof]
#[kani::unwind(140)]
pub fn dbg_tag_first_elem() {
    // only look at what sec1 does with the first byte
    let coords: [u8; 64] = kani::any();
    let mut b = [0u8; 65];
    b[0] = 2;
    let mut i = 0;
    while i < 64 {
        b[1 + i] = coords[i];
        i += 1;
    }
    let r = <<DhP256HkdfSha256 as KemTrait>::PublicKey as Deserializable>::from_bytes(&b);
    assert!(r.is_err());
}
