//! Small helpers shared by the harnesses.

/// no-op replacement for `zeroize::optimization_barrier` (an inline-asm compiler fence that Kani
/// cannot model; semantically a no-op)
pub fn noop_barrier<T: ?Sized>(_val: &T) {}

/// bytewise slice equality written as a bounded loop over the *shorter* concrete bound, so that
/// the unwinding bound is the harness' own constant and not memcmp's
pub fn eq_bytes(a: &[u8], b: &[u8]) -> bool {
    if a.len() != b.len() {
        return false;
    }
    let mut i = 0;
    let mut ok = true;
    while i < a.len() {
        if a[i] != b[i] {
            ok = false;
        }
        i += 1;
    }
    ok
}

#[cfg(kani)]
pub fn any_len(max: usize) -> usize {
    let l: usize = kani::any();
    kani::assume(l <= max);
    l
}
