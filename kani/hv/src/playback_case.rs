// placeholder; overwritten by run.py --replay
