//! C14 - single-shot / in-place equivalence (DESIGN.md section 2, C14).
//! (`seal` == in-place ciphertext || tag is c04_l1_seal_alloc_*; `open` accepts exactly what the
//! in-place form accepts for the same split is c05_l1_open_alloc_step vs c05_l1_open_in_place_step.)
use crate::c03::{enc_from, G8, KEM_ID};
use crate::models::*;
use crate::util::*;
use hpke::aead::AeadTag;
use hpke::kem::{Kem as KemTrait, ToyKemLin};
use hpke::verif_model::{LinKdf, XorPrivateKey, XorPublicKey};
use hpke::{
    setup_receiver, setup_sender, single_shot_open, single_shot_open_in_place_detached, single_shot_seal,
    single_shot_seal_in_place_detached, Deserializable, HpkeError, OpModeR, OpModeS, PskBundle, Serializable,
};

type K = LinKdf;
type M = ToyKemLin;
type AI = IdealAead;
const PT: usize = 3;

fn mk_mode_s<'a>(mode: u8, sk_s: u16, bundle: PskBundle<'a>) -> OpModeS<'a, M> {
    let sks = XorPrivateKey(sk_s);
    let pks = M::sk_to_pk(&sks);
    match mode {
        0 => OpModeS::Base,
        1 => OpModeS::Psk(bundle),
        2 => OpModeS::Auth((sks, pks)),
        _ => OpModeS::AuthPsk((sks, pks), bundle),
    }
}
fn mk_mode_r<'a>(mode: u8, pk_s: u16, bundle: PskBundle<'a>) -> OpModeR<'a, M> {
    match mode {
        0 => OpModeR::Base,
        1 => OpModeR::Psk(bundle),
        2 => OpModeR::Auth(XorPublicKey(pk_s)),
        _ => OpModeR::AuthPsk(XorPublicKey(pk_s), bundle),
    }
}

macro_rules! seal_equiv_harness {
    ($name:ident, $mode:expr) => {
        #[kani::proof]
        #[kani::unwind(20)]
        #[kani::stub(zeroize::optimization_barrier, noop_barrier)]
        #[kani::stub(hkdf::HkdfExtract::new, crate::fasthkdf::stub_extract_new)]
        #[kani::stub(hkdf::HkdfExtract::input_ikm, crate::fasthkdf::stub_input_ikm)]
        #[kani::stub(hkdf::HkdfExtract::finalize, crate::fasthkdf::stub_finalize)]
        #[kani::stub(hkdf::Hkdf::from_prk, crate::fasthkdf::stub_from_prk)]
        #[kani::stub(hkdf::Hkdf::expand_multi_info, crate::fasthkdf::stub_expand_multi_info)]
        pub fn $name() {
            const MODE: u8 = $mode;
            let bytes: [u8; RNG_CAP] = kani::any();
            let mut rng1 = ScriptRng::new(bytes);
            let mut rng2 = ScriptRng::new(bytes);
            let pk_r: u16 = kani::any();
            let sk_s: u16 = kani::any();
            let info: [u8; 2] = kani::any();
            let il = any_len(2);
            let psk: [u8; 1] = kani::any();
            let pid: [u8; 1] = kani::any();
            let bundle = if MODE & 1 == 1 { PskBundle::new(&psk, &pid).unwrap() } else { PskBundle::new(&[], &[]).unwrap() };
            let pt: [u8; PT] = kani::any();
            let len = any_len(PT);
            let aad: [u8; 2] = kani::any();
            let al = any_len(2);
            let m1 = mk_mode_s(MODE, sk_s, bundle);
            let m2 = mk_mode_s(MODE, sk_s, bundle);
            let pkr = XorPublicKey(pk_r);
            // in-place detached
            let mut b1 = pt;
            let r1 = single_shot_seal_in_place_detached::<AI, K, M, _>(&m1, &pkr, &info[..il], &mut b1[..len], &aad[..al], &mut rng1);
            let mut b2 = pt;
            let r2 = match setup_sender::<AI, K, M, _>(&m2, &pkr, &info[..il], &mut rng2) {
                Ok((enc, mut ctx)) => ctx.seal_in_place_detached(&mut b2[..len], &aad[..al]).map(|t| (enc, t)),
                Err(e) => Err(e),
            };
            match (r1, r2) {
                (Ok((e1, t1)), Ok((e2, t2))) => {
                    assert!(e1.to_bytes() == e2.to_bytes());
                    assert!(t1.to_bytes() == t2.to_bytes());
                    assert!(b1 == b2);
                }
                (Err(x), Err(y)) => {
                    assert!(x == y && x == HpkeError::EncapError);
                    assert!(b1 == pt);
                }
                _ => assert!(false, "single-shot seal and setup+seal disagree"),
            }
            assert!(rng1.pos == rng2.pos);
        }
    };
}
//@h name=c14_seal_equiv_base tier=quick mode=func timeout=1800 desc="single_shot_seal_in_place_detached == setup_sender then seal_in_place_detached with the same randomness, Base mode: same enc, same tag, same buffer, or the same error (EncapError, buffer untouched)" bounds="all RNG outputs, pkR; info 0..=2 B, plaintext 0..=3 B, aad 0..=2 B; model suite with ideal AEAD; unwind 20"
seal_equiv_harness!(c14_seal_equiv_base, 0);
//@h name=c14_seal_equiv_authpsk tier=quick mode=func timeout=1800 desc="same in AuthPsk mode (sender key pair and PSK bundle)" bounds="as Base plus all skS, 1-byte psk and psk_id"
seal_equiv_harness!(c14_seal_equiv_authpsk, 3);
//@h name=c14_seal_equiv_psk tier=thorough mode=func timeout=1800 desc="same in Psk mode" bounds="as Base plus 1-byte psk and psk_id"
seal_equiv_harness!(c14_seal_equiv_psk, 1);
//@h name=c14_seal_equiv_auth tier=thorough mode=func timeout=1800 desc="same in Auth mode" bounds="as Base plus all skS"
seal_equiv_harness!(c14_seal_equiv_auth, 2);

macro_rules! open_equiv_harness {
    ($name:ident, $mode:expr) => {
        #[kani::proof]
        #[kani::unwind(20)]
        #[kani::stub(zeroize::optimization_barrier, noop_barrier)]
        #[kani::stub(hkdf::HkdfExtract::new, crate::fasthkdf::stub_extract_new)]
        #[kani::stub(hkdf::HkdfExtract::input_ikm, crate::fasthkdf::stub_input_ikm)]
        #[kani::stub(hkdf::HkdfExtract::finalize, crate::fasthkdf::stub_finalize)]
        #[kani::stub(hkdf::Hkdf::from_prk, crate::fasthkdf::stub_from_prk)]
        #[kani::stub(hkdf::Hkdf::expand_multi_info, crate::fasthkdf::stub_expand_multi_info)]
        pub fn $name() {
            const MODE: u8 = $mode;
            // an honest sealed message first, so that the success path is reachable
            let bytes: [u8; RNG_CAP] = kani::any();
            let mut rng = ScriptRng::new(bytes);
            let sk_r: u16 = kani::any();
            let sk_s: u16 = kani::any();
            let info: [u8; 2] = kani::any();
            let il = any_len(2);
            let psk: [u8; 1] = kani::any();
            let pid: [u8; 1] = kani::any();
            let bundle = if MODE & 1 == 1 { PskBundle::new(&psk, &pid).unwrap() } else { PskBundle::new(&[], &[]).unwrap() };
            let pt: [u8; PT] = kani::any();
            let len = any_len(PT);
            let aad: [u8; 2] = kani::any();
            let al = any_len(2);
            let skr = XorPrivateKey(sk_r);
            let pkr = M::sk_to_pk(&skr);
            let ms = mk_mode_s(MODE, sk_s, bundle);
            let mut ct = pt;
            let sealed = single_shot_seal_in_place_detached::<AI, K, M, _>(&ms, &pkr, &info[..il], &mut ct[..len], &aad[..al], &mut rng);
            // what is delivered: the honest message or an arbitrary one (adversarial enc, ct, tag)
            let honest: bool = kani::any();
            let mut enc_d: u16 = kani::any();
            let mut ct_d: [u8; PT] = kani::any();
            let mut tag_d: [u8; 16] = kani::any();
            if let (true, Ok((enc, tag))) = (honest, &sealed) {
                let eb = enc.to_bytes();
                enc_d = u16::from_be_bytes([eb[0], eb[1]]);
                ct_d = ct;
                tag_d.copy_from_slice(&tag.to_bytes());
            }
            let pk_s = sk_s ^ crate::rfc9180::XOR_G;
            let mr1 = mk_mode_r(MODE, pk_s, bundle);
            let mr2 = mk_mode_r(MODE, pk_s, bundle);
            let tag = AeadTag::<AI>::from_bytes(&tag_d).unwrap();
            let mut b1 = ct_d;
            let r1 = single_shot_open_in_place_detached::<AI, K, M>(&mr1, &skr, &enc_from(enc_d), &info[..il], &mut b1[..len], &aad[..al], &tag);
            let mut b2 = ct_d;
            let r2 = match setup_receiver::<AI, K, M>(&mr2, &skr, &enc_from(enc_d), &info[..il]) {
                Ok(mut ctx) => ctx.open_in_place_detached(&mut b2[..len], &aad[..al], &tag),
                Err(e) => Err(e),
            };
            assert!(r1 == r2, "single-shot open and setup+open disagree");
            if r1.is_ok() {
                assert!(b1 == b2);
            }
            if honest && sealed.is_ok() {
                assert!(r1.is_ok(), "honest message must open");
                assert!(b1 == pt);
            }
            match r1 {
                Ok(()) => {}
                Err(e) => assert!(e == HpkeError::DecapError || e == HpkeError::OpenError),
            }
            kani::cover!(honest && sealed.is_ok() && len == PT, "honest message opened");
            kani::cover!(!honest && matches!(r1, Err(HpkeError::DecapError)), "bad encapsulated key");
            kani::cover!(!honest && matches!(r1, Err(HpkeError::OpenError)), "bad tag");
        }
    };
}
//@h name=c14_open_equiv_base tier=quick mode=func timeout=2400 desc="single_shot_open_in_place_detached == setup_receiver then open_in_place_detached, Base mode: identical Result (Ok with the same plaintext, DecapError for a bad encapsulated key, OpenError for a bad tag) on the honest message and on arbitrary adversarial (enc, ciphertext, tag); the honest message opens to the plaintext" bounds="all RNG outputs, skR, delivered enc/ct/tag; info 0..=2 B, plaintext 0..=3 B, aad 0..=2 B; model suite with ideal AEAD; unwind 20"
open_equiv_harness!(c14_open_equiv_base, 0);
//@h name=c14_open_equiv_authpsk tier=quick mode=func timeout=2400 desc="same in AuthPsk mode" bounds="as Base plus all skS, 1-byte psk and psk_id"
open_equiv_harness!(c14_open_equiv_authpsk, 3);

/// allocating single-shot API, concrete wire length, adversarial encapsulated key: the error
/// precedence (DecapError before OpenError, also for inputs shorter than a tag) must be that of
/// the composition
macro_rules! open_alloc_equiv_harness {
    ($name:ident, $wire:expr) => {
        #[kani::proof]
        #[kani::unwind(20)]
        #[kani::stub(zeroize::optimization_barrier, noop_barrier)]
        #[kani::stub(hkdf::HkdfExtract::new, crate::fasthkdf::stub_extract_new)]
        #[kani::stub(hkdf::HkdfExtract::input_ikm, crate::fasthkdf::stub_input_ikm)]
        #[kani::stub(hkdf::HkdfExtract::finalize, crate::fasthkdf::stub_finalize)]
        #[kani::stub(hkdf::Hkdf::from_prk, crate::fasthkdf::stub_from_prk)]
        #[kani::stub(hkdf::Hkdf::expand_multi_info, crate::fasthkdf::stub_expand_multi_info)]
        pub fn $name() {
            const W: usize = $wire;
            let sk_r: u16 = kani::any();
            let enc: u16 = kani::any();
            let wire: [u8; W] = kani::any();
            let aad: [u8; 1] = kani::any();
            let skr = XorPrivateKey(sk_r);
            let r1 = single_shot_open::<AI, K, M>(&OpModeR::Base, &skr, &enc_from(enc), &[], &wire, &aad);
            let r2 = match setup_receiver::<AI, K, M>(&OpModeR::Base, &skr, &enc_from(enc), &[]) {
                Ok(mut ctx) => ctx.open(&wire, &aad),
                Err(e) => Err(e),
            };
            match (r1, r2) {
                (Err(x), Err(y)) => assert!(x == y, "single_shot_open and setup+open report different errors"),
                (Ok(_), Ok(_)) => assert!(false, "nothing was sealed, nothing may open"),
                _ => assert!(false, "single_shot_open and setup+open disagree"),
            }
            kani::cover!(enc ^ sk_r ^ crate::rfc9180::XOR_G == 0, "bad encapsulated key");
        }
    };
}
//@h name=c14_open_alloc_equiv_w0 tier=quick mode=func timeout=1200 desc="single_shot_open == setup_receiver then open on an EMPTY ciphertext and an arbitrary encapsulated key: same error (DecapError when decapsulation fails, else OpenError)" bounds="all skR, enc; wire length 0; model suite; unwind 20"
open_alloc_equiv_harness!(c14_open_alloc_equiv_w0, 0);
//@h name=c14_open_alloc_equiv_w15 tier=quick mode=func timeout=1200 desc="same for a 15-byte ciphertext (one byte short of a tag)" bounds="wire length 15, contents symbolic"
open_alloc_equiv_harness!(c14_open_alloc_equiv_w15, 15);
//@h name=c14_open_alloc_equiv_w18 tier=quick mode=func timeout=1200 desc="same for an 18-byte ciphertext (garbage with room for a tag)" bounds="wire length 18, contents symbolic"
open_alloc_equiv_harness!(c14_open_alloc_equiv_w18, 18);

//@h name=c14_seal_alloc_equiv tier=quick mode=func timeout=1800 desc="single_shot_seal (allocating) == setup_sender then seal with the same randomness: same enc and ciphertext bytes or same error" bounds="all RNG outputs, pkR; plaintext length 2 (contents symbolic), aad 0..=1 B; Base mode; unwind 20"
#[kani::proof]
#[kani::unwind(20)]
#[kani::stub(zeroize::optimization_barrier, noop_barrier)]
#[kani::stub(hkdf::HkdfExtract::new, crate::fasthkdf::stub_extract_new)]
#[kani::stub(hkdf::HkdfExtract::input_ikm, crate::fasthkdf::stub_input_ikm)]
#[kani::stub(hkdf::HkdfExtract::finalize, crate::fasthkdf::stub_finalize)]
#[kani::stub(hkdf::Hkdf::from_prk, crate::fasthkdf::stub_from_prk)]
#[kani::stub(hkdf::Hkdf::expand_multi_info, crate::fasthkdf::stub_expand_multi_info)]
pub fn c14_seal_alloc_equiv() {
    let bytes: [u8; RNG_CAP] = kani::any();
    let mut rng1 = ScriptRng::new(bytes);
    let mut rng2 = ScriptRng::new(bytes);
    let pk_r: u16 = kani::any();
    let pt: [u8; 2] = kani::any();
    let aad: [u8; 1] = kani::any();
    let al = any_len(1);
    let pkr = XorPublicKey(pk_r);
    let r1 = single_shot_seal::<AI, K, M, _>(&OpModeS::Base, &pkr, &[], &pt, &aad[..al], &mut rng1);
    let r2 = match setup_sender::<AI, K, M, _>(&OpModeS::Base, &pkr, &[], &mut rng2) {
        Ok((enc, mut ctx)) => ctx.seal(&pt, &aad[..al]).map(|c| (enc, c)),
        Err(e) => Err(e),
    };
    match (r1, r2) {
        (Ok((e1, c1)), Ok((e2, c2))) => {
            assert!(e1.to_bytes() == e2.to_bytes());
            assert!(c1.len() == 18 && c2.len() == 18);
            assert!(eq_bytes(&c1, &c2));
        }
        (Err(x), Err(y)) => assert!(x == y),
        _ => assert!(false, "single_shot_seal and setup+seal disagree"),
    }
}
