//! C15 - PSK bundle (DESIGN.md section 2, C15).  L2 (data flow of psk / psk_id into the key
//! schedule) is decided by the c02_l2_* harnesses with psk and psk_id independent symbolic
//! strings; this file holds the constructor lemma and the empty-bundle case.
use crate::c03::{enc_from, G8, KEM_ID};
use crate::c02::{AEAD_ID, KDF_ID};
use crate::models::*;
use crate::rfc9180 as rfc;
use crate::util::*;
use hpke::kem::ToyKemLin;
use hpke::verif_model::{LinHash, LinKdf, XorPrivateKey, XorPublicKey};
use hpke::{setup_receiver, setup_sender, HpkeError, OpModeR, OpModeS, PskBundle, Serializable};

const N: usize = 64;

//@h name=c15_l1_bundle_new tier=quick mode=full timeout=600 desc="PskBundle::new(psk, psk_id) is Ok exactly when both are empty or both are non-empty, and Err(InvalidPskBundle) otherwise, whatever the bytes are (including all-zero keys)" bounds="both lengths 0..=64 symbolic, contents symbolic; all default Kani checks on; unwind 66"
#[kani::proof]
#[kani::unwind(66)]
pub fn c15_l1_bundle_new() {
    let psk: [u8; N] = kani::any();
    let pid: [u8; N] = kani::any();
    let pl = any_len(N);
    let il = any_len(N);
    let r = PskBundle::new(&psk[..pl], &pid[..il]);
    if (pl == 0) == (il == 0) {
        assert!(r.is_ok());
    } else {
        assert!(matches!(r, Err(HpkeError::InvalidPskBundle)));
    }
    kani::cover!(pl == N && il == 1, "long key, short id");
    kani::cover!(pl == 0 && il == 0, "empty bundle");
    kani::cover!(pl == 3 && psk[0] == 0 && psk[1] == 0 && psk[2] == 0 && il == 0, "lone all-zero key");
}

//@h name=c15_l2_empty_bundle_psk_mode tier=quick mode=func timeout=1200 desc="the empty bundle in Psk mode enters the key schedule as mode byte 1 with empty psk and empty psk_id (the bundle's own values, not another mode's): key, base nonce, exporter secret equal the RFC KeySchedule(mode=1, psk='', psk_id='')" bounds="all skR, enc; info 0..=2 B; LinHash model suite; unwind 20"
#[kani::proof]
#[kani::unwind(20)]
#[kani::stub(zeroize::optimization_barrier, noop_barrier)]
#[kani::stub(hkdf::HkdfExtract::new, crate::fasthkdf::stub_extract_new)]
#[kani::stub(hkdf::HkdfExtract::input_ikm, crate::fasthkdf::stub_input_ikm)]
#[kani::stub(hkdf::HkdfExtract::finalize, crate::fasthkdf::stub_finalize)]
#[kani::stub(hkdf::Hkdf::from_prk, crate::fasthkdf::stub_from_prk)]
#[kani::stub(hkdf::Hkdf::expand_multi_info, crate::fasthkdf::stub_expand_multi_info)]
pub fn c15_l2_empty_bundle_psk_mode() {
    let sk_r: u16 = kani::any();
    let enc: u16 = kani::any();
    let info: [u8; 2] = kani::any();
    let il = any_len(2);
    let bundle = PskBundle::new(&[], &[]).unwrap();
    let mode = OpModeR::<ToyKemLin>::Psk(bundle);
    let res = setup_receiver::<SpyAead16, LinKdf, ToyKemLin>(&mode, &XorPrivateKey(sk_r), &enc_from(enc), &info[..il]);
    match (res, rfc::decap::<G8, LinHash>(KEM_ID, enc, sk_r, None)) {
        (Ok(ctx), Some(ss)) => {
            let suite = rfc::full_suite_id(KEM_ID, KDF_ID, AEAD_ID);
            let sched = rfc::key_schedule::<LinHash>(rfc::MODE_PSK, ss.as_slice(), &info[..il], &[], &[], &suite, 16, 12);
            assert!(eq_bytes(&spy().new_key[..16], sched.key.as_slice()));
            assert!(eq_bytes(ctx.verif_base_nonce(), sched.base_nonce.as_slice()));
            assert!(eq_bytes(ctx.verif_exporter_secret(), sched.exporter_secret.as_slice()));
        }
        (Err(e), None) => assert!(e == HpkeError::DecapError),
        _ => assert!(false),
    }
}

//@h name=c15_l2_empty_bundle_psk_mode_sender tier=quick mode=func also=C01,C02 timeout=1200 desc="sender side: the empty bundle in Psk mode enters the key schedule as mode byte 1 with empty psk and psk_id (so a sender and a receiver that both hold the empty bundle agree, and neither silently falls back to Base): enc, key, base nonce, exporter secret equal RFC SetupS with mode=1" bounds="all RNG outputs, pkR; info 0..=2 B; LinHash model suite; unwind 20"
#[kani::proof]
#[kani::unwind(20)]
#[kani::stub(zeroize::optimization_barrier, noop_barrier)]
#[kani::stub(hkdf::HkdfExtract::new, crate::fasthkdf::stub_extract_new)]
#[kani::stub(hkdf::HkdfExtract::input_ikm, crate::fasthkdf::stub_input_ikm)]
#[kani::stub(hkdf::HkdfExtract::finalize, crate::fasthkdf::stub_finalize)]
#[kani::stub(hkdf::Hkdf::from_prk, crate::fasthkdf::stub_from_prk)]
#[kani::stub(hkdf::Hkdf::expand_multi_info, crate::fasthkdf::stub_expand_multi_info)]
pub fn c15_l2_empty_bundle_psk_mode_sender() {
    let bytes: [u8; RNG_CAP] = kani::any();
    let mut rng = ScriptRng::new(bytes);
    let pk_r: u16 = kani::any();
    let info: [u8; 2] = kani::any();
    let il = any_len(2);
    let bundle = PskBundle::new(&[], &[]).unwrap();
    let mode = OpModeS::<ToyKemLin>::Psk(bundle);
    let res = setup_sender::<SpyAead16, LinKdf, ToyKemLin, _>(&mode, &XorPublicKey(pk_r), &info[..il], &mut rng);
    let mut e = [0u8; 2];
    rfc::derive_sk_simple::<LinHash>(KEM_ID, &bytes[..2], &mut e);
    match (res, rfc::encap::<G8, LinHash>(KEM_ID, pk_r, u16::from_be_bytes(e), None)) {
        (Ok((enc, ctx)), Some((ss, wenc))) => {
            assert!(eq_bytes(&enc.to_bytes(), wenc.as_slice()));
            let suite = rfc::full_suite_id(KEM_ID, KDF_ID, AEAD_ID);
            let sched = rfc::key_schedule::<LinHash>(rfc::MODE_PSK, ss.as_slice(), &info[..il], &[], &[], &suite, 16, 12);
            assert!(eq_bytes(&spy().new_key[..16], sched.key.as_slice()));
            assert!(eq_bytes(ctx.verif_base_nonce(), sched.base_nonce.as_slice()));
            assert!(eq_bytes(ctx.verif_exporter_secret(), sched.exporter_secret.as_slice()));
        }
        (Err(e), None) => assert!(e == HpkeError::EncapError),
        _ => assert!(false),
    }
}
