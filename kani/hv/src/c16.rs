//! C16 - zeroisation on drop (DESIGN.md section 2, C16)
use crate::c03::enc_from;
use crate::models::*;
use crate::util::*;
use core::mem::{ManuallyDrop, MaybeUninit};
use hpke::generic_array::GenericArray;
use hpke::aead::ExportOnlyAead;
use hpke::kdf::{HkdfSha256, HkdfSha384, HkdfSha512};
use hpke::kem::{DhP384HkdfSha384, DhP521HkdfSha512, Kem as KemTrait, SharedSecret, ToyKemLin, X25519HkdfSha256};
use hpke::verif_hooks::*;
use hpke::verif_model::{LinKdf, XorPrivateKey, XorPublicKey};
use hpke::{setup_receiver, setup_sender, OpModeR, OpModeS};

macro_rules! shared_secret_harness {
    ($name:ident, $kem:ty, $n:expr) => {
        #[kani::proof]
        #[kani::unwind(70)]
        #[kani::stub(zeroize::optimization_barrier, noop_barrier)]
        pub fn $name() {
            let bytes: [u8; $n] = kani::any();
            let mut slot = MaybeUninit::<SharedSecret<$kem>>::uninit();
            slot.write(SharedSecret(GenericArray::clone_from_slice(&bytes)));
            unsafe { core::ptr::drop_in_place(slot.as_mut_ptr()) };
            assert!(core::mem::size_of::<SharedSecret<$kem>>() == $n);
            let p = slot.as_ptr() as *const u8;
            let mut i = 0;
            while i < $n {
                assert!(unsafe { *p.add(i) } == 0, "shared secret byte survives drop");
                i += 1;
            }
        }
    };
}
//@h name=c16_l1_shared_secret_toy tier=quick mode=full timeout=600 desc="dropping a KEM shared secret leaves all-zero bytes in the memory that held it (model KEM, Nsecret=8), for every secret value" bounds="all 2^64 secret values; drop_in_place on a MaybeUninit slot, bytes read back; all default checks on"
shared_secret_harness!(c16_l1_shared_secret_toy, ToyKemLin, 8);
//@h name=c16_l1_shared_secret_x25519 tier=quick mode=full timeout=600 desc="same for the real DHKEM(X25519) shared secret type (32 bytes)" bounds="all 2^256 secret values"
shared_secret_harness!(c16_l1_shared_secret_x25519, X25519HkdfSha256, 32);
//@h name=c16_l1_shared_secret_p384 tier=thorough mode=full timeout=600 desc="same for DHKEM(P-384) (48 bytes)" bounds="all secret values"
shared_secret_harness!(c16_l1_shared_secret_p384, DhP384HkdfSha384, 48);
//@h name=c16_l1_shared_secret_p521 tier=thorough mode=full timeout=600 desc="same for DHKEM(P-521) (64 bytes)" bounds="all secret values"
shared_secret_harness!(c16_l1_shared_secret_p521, DhP521HkdfSha512, 64);

macro_rules! ctx_drop_harness {
    ($name:ident, $from:ident, $kdf:ty, $nh:expr) => {
        #[kani::proof]
        #[kani::unwind(70)]
        #[kani::stub(zeroize::optimization_barrier, noop_barrier)]
        pub fn $name() {
            let key: [u8; 16] = kani::any();
            let base: [u8; 12] = kani::any();
            let exp: [u8; $nh] = kani::any();
            let mut ctx = ManuallyDrop::new($from::<SpyAead16, $kdf, ToyKemLin>(&key, &base, &exp, kani::any(), kani::any()));
            let pn = ctx.verif_base_nonce().as_ptr();
            let pe = ctx.verif_exporter_secret().as_ptr();
            assert!(ctx.verif_base_nonce().len() == 12 && ctx.verif_exporter_secret().len() == $nh);
            unsafe { ManuallyDrop::drop(&mut ctx) };
            let mut i = 0;
            while i < 12 {
                assert!(unsafe { *pn.add(i) } == 0, "base nonce byte survives drop");
                i += 1;
            }
            let mut j = 0;
            while j < $nh {
                assert!(unsafe { *pe.add(j) } == 0, "exporter secret byte survives drop");
                j += 1;
            }
        }
    };
}
//@h name=c16_l2_ctx_s_drop tier=quick mode=full timeout=600 desc="dropping a sender context wipes base nonce and exporter secret where they were stored (model KDF, Nh=8)" bounds="all base nonce / exporter secret values, arbitrary counter state"
ctx_drop_harness!(c16_l2_ctx_s_drop, ctx_s_from_parts, LinKdf, 8);
//@h name=c16_l2_ctx_r_drop tier=quick mode=full timeout=600 desc="dropping a receiver context wipes base nonce and exporter secret (model KDF, Nh=8)" bounds="all base nonce / exporter secret values, arbitrary counter state"
ctx_drop_harness!(c16_l2_ctx_r_drop, ctx_r_from_parts, LinKdf, 8);
//@h name=c16_l2_ctx_r_drop_sha256 tier=quick mode=full timeout=600 desc="same with the real HKDF-SHA256 type parameter (32-byte exporter secret)" bounds="all values"
ctx_drop_harness!(c16_l2_ctx_r_drop_sha256, ctx_r_from_parts, HkdfSha256, 32);
//@h name=c16_l2_ctx_s_drop_sha512 tier=thorough mode=full timeout=600 desc="same with the real HKDF-SHA512 type parameter (64-byte exporter secret), sender" bounds="all values"
ctx_drop_harness!(c16_l2_ctx_s_drop_sha512, ctx_s_from_parts, HkdfSha512, 64);
//@h name=c16_l2_ctx_r_drop_sha384 tier=thorough mode=full timeout=600 desc="same with the real HKDF-SHA384 type parameter (48-byte exporter secret)" bounds="all values"
ctx_drop_harness!(c16_l2_ctx_r_drop_sha384, ctx_r_from_parts, HkdfSha384, 48);

//@h name=c16_l3_setup_receiver_ledger tier=quick mode=func timeout=1200 desc="after setup_receiver returns, the temporary AEAD key buffer and the shared secret handed to the key schedule have been dropped, and every secret-buffer drop so far left only zero bytes (drop ledger hook)" bounds="all skR, enc; info 0..=1 B; model suite; unwind 20"
#[kani::proof]
#[kani::unwind(20)]
#[kani::stub(zeroize::optimization_barrier, noop_barrier)]
#[kani::stub(hkdf::HkdfExtract::new, crate::fasthkdf::stub_extract_new)]
#[kani::stub(hkdf::HkdfExtract::input_ikm, crate::fasthkdf::stub_input_ikm)]
#[kani::stub(hkdf::HkdfExtract::finalize, crate::fasthkdf::stub_finalize)]
#[kani::stub(hkdf::Hkdf::from_prk, crate::fasthkdf::stub_from_prk)]
#[kani::stub(hkdf::Hkdf::expand_multi_info, crate::fasthkdf::stub_expand_multi_info)]
pub fn c16_l3_setup_receiver_ledger() {
    let sk_r: u16 = kani::any();
    let enc: u16 = kani::any();
    let info: [u8; 1] = kani::any();
    let il = any_len(1);
    ledger::reset();
    let res = setup_receiver::<SpyAead16, LinKdf, ToyKemLin>(&OpModeR::Base, &XorPrivateKey(sk_r), &enc_from(enc), &info[..il]);
    if res.is_ok() {
        let (kd, kdirty) = ledger::read(ledger::AEAD_KEY);
        assert!(kd >= 1 && kdirty == 0, "temporary AEAD key not wiped before setup returns");
        let (sd, sdirty) = ledger::read(ledger::SHARED_SECRET);
        assert!(sd >= 1 && sdirty == 0, "shared secret not wiped");
        // the context still owns nonce and exporter secret
        assert!(ledger::read(ledger::AEAD_NONCE).1 == 0 && ledger::read(ledger::EXPORTER_SECRET).1 == 0);
        drop(res);
        assert!(ledger::read(ledger::AEAD_NONCE) .1 == 0 && ledger::read(ledger::AEAD_NONCE).0 >= 1);
        assert!(ledger::read(ledger::EXPORTER_SECRET).1 == 0 && ledger::read(ledger::EXPORTER_SECRET).0 >= 1);
    }
}

//@h name=c16_l3_setup_sender_ledger tier=quick mode=func timeout=1200 desc="same for setup_sender (scripted RNG): AEAD key and shared secret dropped and wiped before setup returns; nonce and exporter secret wiped when the context is dropped" bounds="all RNG outputs, pkR; model suite; unwind 20"
#[kani::proof]
#[kani::unwind(20)]
#[kani::stub(zeroize::optimization_barrier, noop_barrier)]
#[kani::stub(hkdf::HkdfExtract::new, crate::fasthkdf::stub_extract_new)]
#[kani::stub(hkdf::HkdfExtract::input_ikm, crate::fasthkdf::stub_input_ikm)]
#[kani::stub(hkdf::HkdfExtract::finalize, crate::fasthkdf::stub_finalize)]
#[kani::stub(hkdf::Hkdf::from_prk, crate::fasthkdf::stub_from_prk)]
#[kani::stub(hkdf::Hkdf::expand_multi_info, crate::fasthkdf::stub_expand_multi_info)]
pub fn c16_l3_setup_sender_ledger() {
    let bytes: [u8; RNG_CAP] = kani::any();
    let mut rng = ScriptRng::new(bytes);
    let pk_r: u16 = kani::any();
    ledger::reset();
    let res = setup_sender::<SpyAead16, LinKdf, ToyKemLin, _>(&OpModeS::Base, &XorPublicKey(pk_r), &[], &mut rng);
    if res.is_ok() {
        let (kd, kdirty) = ledger::read(ledger::AEAD_KEY);
        assert!(kd >= 1 && kdirty == 0, "temporary AEAD key not wiped before setup returns");
        let (sd, sdirty) = ledger::read(ledger::SHARED_SECRET);
        assert!(sd >= 1 && sdirty == 0, "shared secret not wiped");
        drop(res);
        assert!(ledger::read(ledger::AEAD_NONCE).1 == 0 && ledger::read(ledger::AEAD_NONCE).0 >= 1);
        assert!(ledger::read(ledger::EXPORTER_SECRET).1 == 0 && ledger::read(ledger::EXPORTER_SECRET).0 >= 1);
    }
}

//@h name=c16_l2_ctx_drop_exportonly tier=quick mode=full timeout=900 desc="dropping an export-only context (128-byte base nonce, the largest secret buffer the library has) wipes ALL of the base nonce and the exporter secret" bounds="all 128 nonce bytes and the 8-byte exporter secret symbolic; sender role; unwind 132"
#[kani::proof]
#[kani::unwind(132)]
#[kani::stub(zeroize::optimization_barrier, noop_barrier)]
pub fn c16_l2_ctx_drop_exportonly() {
    let base: [u8; 128] = kani::any();
    let exp: [u8; 8] = kani::any();
    let mut ctx = ManuallyDrop::new(ctx_s_from_parts::<ExportOnlyAead, LinKdf, ToyKemLin>(&[], &base, &exp, kani::any(), kani::any()));
    let pn = ctx.verif_base_nonce().as_ptr();
    let pe = ctx.verif_exporter_secret().as_ptr();
    assert!(ctx.verif_base_nonce().len() == 128 && ctx.verif_exporter_secret().len() == 8);
    unsafe { ManuallyDrop::drop(&mut ctx) };
    let mut i = 0;
    while i < 128 {
        assert!(unsafe { *pn.add(i) } == 0, "base nonce byte survives drop");
        i += 1;
    }
    let mut j = 0;
    while j < 8 {
        assert!(unsafe { *pe.add(j) } == 0, "exporter secret byte survives drop");
        j += 1;
    }
}
