//! Kani harnesses over the real hpke source (path dependency on /repo, hooks on).
//! One module per property; see /verif/DESIGN.md.
#![allow(dead_code, unused_imports, clippy::all)]

pub mod models;
pub mod util;

#[cfg(kani)]
pub mod c04;

// filled in by `run.py --replay` with a Kani concrete-playback unit test
#[cfg(kani)]
mod playback_case;
