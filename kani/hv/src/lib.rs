//! Kani harnesses over the real hpke source (path dependency on /repo, hooks on).
//! One module per property; see /verif/DESIGN.md.
#![allow(dead_code, unused_imports, clippy::all)]

pub mod models;
pub mod util;
pub mod rfc9180;
pub mod sketch;
#[cfg(kani)]
pub mod fasthkdf;

#[cfg(kani)]
pub mod c01;
#[cfg(kani)]
pub mod c02;
#[cfg(kani)]
pub mod c02long;
#[cfg(kani)]
pub mod c03;
#[cfg(kani)]
pub mod c03n;
#[cfg(kani)]
pub mod c04;
#[cfg(kani)]
pub mod c05;
#[cfg(kani)]
pub mod c06;
#[cfg(kani)]
pub mod c07;
#[cfg(kani)]
pub mod c10;
#[cfg(kani)]
pub mod c11;
#[cfg(kani)]
pub mod c12;
#[cfg(kani)]
pub mod c13;
#[cfg(kani)]
pub mod c14;
#[cfg(kani)]
pub mod c15;
#[cfg(kani)]
pub mod c16;
#[cfg(kani)]
pub mod c18;
#[cfg(kani)]
pub mod tables;
#[cfg(all(kani, feature = "bench"))]
pub mod bench;

// filled in by `run.py --replay` with a Kani concrete-playback unit test
#[cfg(kani)]
mod playback_case;
