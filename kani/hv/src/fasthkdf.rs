//! A cheap functional stand-in for the `hkdf`/`hmac` crates (third-party primitives, like SHA-2),
//! applied with `#[kani::stub]` to the five hkdf entry points hpke calls:
//!   HkdfExtract::new / input_ikm / finalize,  Hkdf::from_prk / expand_multi_info.
//! Measured: one HMAC through the real generic-array/digest/hmac/hkdf machinery costs ~70k symbolic
//! execution steps even over an 8-byte toy hash; a key schedule is >1.2M steps and 17-20 min.
//!
//! Contract assumed (and tied to the real crates by the UN-stubbed harnesses c03_*, which compare
//! real hkdf+hmac over the same model hash with the hand-written RFC 2104/5869 reference):
//!   extract(salt, ikm...) = HMAC-H(salt, concat(ikm...)),  from_prk(prk) fails iff |prk| < Nh,
//!   expand(info..., L) fails iff L > 255*Nh, else T(i) = HMAC-H(prk, T(i-1) | info | i).
//!
//! The real `Hkdf`/`HkdfExtract` values are used as OPAQUE containers: the stubs never interpret
//! their private fields, they only keep their own 24-byte state in the object's bytes, so nothing
//! depends on the crates' struct layout.  Every function that looks inside such a value is
//! stubbed - which is all five that hpke uses.  (A first design kept the state in a global ghost
//! arena indexed by an id parked in the object; symbolic array indices made that slower than the
//! real code.)  Only the LinHash instantiation is supported: its HMAC state fits the container.

use digest::{Output, OutputSizeUser};
use hkdf::{Hkdf, HkdfExtract, HmacImpl, InvalidLength, InvalidPrkLength};
use crate::sketch::{sketch_absorb, sketch_finish, sketch_new, Sketch};
use hpke::verif_model::{EndsHash, InternHash, LinHash, ScriptHash, LIN_K, LIN_SEED};

/// What the stub layer needs from a model hash: an incremental HMAC whose state is small enough to
/// live inside the (opaque) hkdf objects.
pub trait FastHmac: OutputSizeUser {
    type St: Copy;
    /// HMAC started with `key`
    fn begin(key: &[u8]) -> Self::St;
    fn absorb(st: &mut Self::St, data: &[u8]);
    /// the HMAC value (Nh bytes) into `out`
    fn finish(st: &Self::St, out: &mut [u8]);
}

fn put<T, S: Copy>(st: S) -> T {
    assert!(core::mem::size_of::<T>() >= core::mem::size_of::<S>(), "container too small for the HKDF stub layer");
    let mut m = core::mem::MaybeUninit::<T>::zeroed();
    unsafe {
        core::ptr::write_unaligned(m.as_mut_ptr() as *mut S, st);
        m.assume_init()
    }
}
fn get<T, S: Copy>(t: &T) -> S {
    unsafe { core::ptr::read_unaligned(t as *const T as *const S) }
}
fn set<T, S: Copy>(t: &mut T, st: S) {
    unsafe { core::ptr::write_unaligned(t as *mut T as *mut S, st) }
}

// ---------------------------------------------------------------------------------------------
// LinHash: HMAC computed directly on the u64 state (RFC 2104 with block = 8)
// ---------------------------------------------------------------------------------------------

/// HMAC-LinHash state: running inner hash + the padded key K0
#[derive(Clone, Copy)]
#[repr(C)]
pub struct LinSt {
    pub acc: u64,
    pub len: u64,
    pub k0: [u8; 8],
}

impl FastHmac for LinHash {
    type St = LinSt;
    fn begin(key: &[u8]) -> LinSt {
        lin_begin(lin_k0(key))
    }
    fn absorb(st: &mut LinSt, data: &[u8]) {
        lin_absorb(&mut st.acc, &mut st.len, data);
    }
    fn finish(st: &LinSt, out: &mut [u8]) {
        out.copy_from_slice(&lin_end(st));
    }
}

// ---------------------------------------------------------------------------------------------
// InternHash instantiation: HMAC itself is modelled as an INJECTIVE function of (key, message)
// (symbolic / Dolev-Yao model): the value is the index of the first equal (key, message) pair in a
// ghost table.  Equal outputs <=> equal (key, message).  One table entry per HMAC instead of two
// hash entries plus the ipad/opad processing of the real construction.
// ---------------------------------------------------------------------------------------------

pub const IH_MSG_CAP: usize = 68;
pub const IH_TABLE_CAP: usize = 24;

#[derive(Clone, Copy)]
#[repr(C)]
pub struct InternSt {
    pub key: [u8; 12],
    pub key_len: u8,
    pub msg_len: u8,
    pub overflow: bool,
    pub msg: [u8; IH_MSG_CAP],
}
const IH_EMPTY: InternSt = InternSt { key: [0; 12], key_len: 0, msg_len: 0, overflow: false, msg: [0; IH_MSG_CAP] };
pub struct InternHmacTable {
    pub n: usize,
    pub e: [InternSt; IH_TABLE_CAP],
    pub overflow: bool,
}
pub static mut IH_TABLE: InternHmacTable = InternHmacTable { n: 0, e: [IH_EMPTY; IH_TABLE_CAP], overflow: false };
pub fn intern_hmac_overflowed() -> bool {
    unsafe { (*core::ptr::addr_of!(IH_TABLE)).overflow }
}

impl FastHmac for InternHash {
    type St = InternSt;
    fn begin(key: &[u8]) -> InternSt {
        let mut st = IH_EMPTY;
        if key.len() > 12 {
            st.overflow = true;
        } else {
            let mut i = 0;
            while i < 12 {
                if i < key.len() {
                    st.key[i] = key[i];
                }
                i += 1;
            }
            st.key_len = key.len() as u8;
        }
        st
    }
    fn absorb(st: &mut InternSt, data: &[u8]) {
        let mut i = 0;
        while i < data.len() {
            if (st.msg_len as usize) < IH_MSG_CAP {
                st.msg[st.msg_len as usize] = data[i];
                st.msg_len += 1;
            } else {
                st.overflow = true;
            }
            i += 1;
        }
    }
    fn finish(st: &InternSt, out: &mut [u8]) {
        let t = unsafe { &mut *core::ptr::addr_of_mut!(IH_TABLE) };
        if st.overflow {
            t.overflow = true;
        }
        // always append (keeps the write index concrete), id = first equal entry
        let slot = t.n;
        if slot < IH_TABLE_CAP {
            t.e[slot] = *st;
            t.n = slot + 1;
        } else {
            t.overflow = true;
        }
        let mut found = slot;
        let mut i = 0;
        while i < IH_TABLE_CAP {
            if i < slot && found == slot {
                let e = &t.e[i];
                // unused bytes are zero in both, so whole-array comparison is exact
                if e.key_len == st.key_len && e.msg_len == st.msg_len && e.key == st.key && e.msg == st.msg {
                    found = i;
                }
            }
            i += 1;
        }
        let idb = (found as u32 + 1).to_be_bytes();
        let pat = [0xA5, idb[0], idb[1], idb[2], idb[3], 0x5A, idb[3], idb[2], idb[1], idb[0], 0xC3, 0x3C];
        out.copy_from_slice(&pat);
    }
}

pub fn lin_absorb(acc: &mut u64, len: &mut u64, data: &[u8]) {
    let mut i = 0;
    while i < data.len() {
        *acc = acc.rotate_left(5) ^ (data[i] as u64) ^ LIN_K;
        *len += 1;
        i += 1;
    }
}
pub fn lin_finish(acc: u64, len: u64) -> [u8; 8] {
    (acc ^ len.rotate_left(29)).to_be_bytes()
}
/// K0: the key padded with zeros to the block size (8), or hashed first if longer
fn lin_k0(key: &[u8]) -> [u8; 8] {
    let mut k0 = [0u8; 8];
    if key.len() > 8 {
        let (mut a, mut l) = (LIN_SEED, 0u64);
        lin_absorb(&mut a, &mut l, key);
        k0 = lin_finish(a, l);
    } else {
        let mut i = 0;
        while i < 8 {
            if i < key.len() {
                k0[i] = key[i];
            }
            i += 1;
        }
    }
    k0
}
fn lin_begin(k0: [u8; 8]) -> LinSt {
    let mut ipad = [0u8; 8];
    let mut i = 0;
    while i < 8 {
        ipad[i] = k0[i] ^ 0x36;
        i += 1;
    }
    let mut st = LinSt { acc: LIN_SEED, len: 0, k0 };
    lin_absorb(&mut st.acc, &mut st.len, &ipad);
    st
}
fn lin_end(st: &LinSt) -> [u8; 8] {
    let mut opad = [0u8; 8];
    let mut i = 0;
    while i < 8 {
        opad[i] = st.k0[i] ^ 0x5c;
        i += 1;
    }
    let inner = lin_finish(st.acc, st.len);
    let (mut a, mut l) = (LIN_SEED, 0u64);
    lin_absorb(&mut a, &mut l, &opad);
    lin_absorb(&mut a, &mut l, &inner);
    lin_finish(a, l)
}

fn out_from<H: OutputSizeUser>(bytes: &[u8]) -> Output<H> {
    // GenericArray<u8, N> is a transparent wrapper around [u8; N]
    assert!(bytes.len() >= <H as OutputSizeUser>::output_size());
    unsafe { core::ptr::read_unaligned(bytes.as_ptr() as *const Output<H>) }
}

pub fn stub_extract_new<H, I>(salt: Option<&[u8]>) -> HkdfExtract<H, I>
where
    H: OutputSizeUser + FastHmac,
    I: HmacImpl<H>,
{
    let zeros = [0u8; 72];
    let st = match salt {
        Some(s) => H::begin(s),
        None => H::begin(&zeros[..<H as OutputSizeUser>::output_size()]), // HashLen zeros
    };
    put(st)
}

pub fn stub_input_ikm<H, I>(this: &mut HkdfExtract<H, I>, ikm: &[u8])
where
    H: OutputSizeUser + FastHmac,
    I: HmacImpl<H>,
{
    let mut st: H::St = get(this);
    H::absorb(&mut st, ikm);
    set(this, st);
}

pub fn stub_finalize<H, I>(this: HkdfExtract<H, I>) -> (Output<H>, Hkdf<H, I>)
where
    H: OutputSizeUser + FastHmac,
    I: HmacImpl<H>,
{
    let nh = <H as OutputSizeUser>::output_size();
    let st: H::St = get(&this);
    core::mem::forget(this);
    let mut prk = [0u8; 72];
    H::finish(&st, &mut prk[..nh]);
    // the expander: an HMAC started with PRK as key
    (out_from::<H>(&prk), put(H::begin(&prk[..nh])))
}

pub fn stub_from_prk<H, I>(prk: &[u8]) -> Result<Hkdf<H, I>, InvalidPrkLength>
where
    H: OutputSizeUser + FastHmac,
    I: HmacImpl<H>,
{
    if prk.len() < <H as OutputSizeUser>::output_size() {
        return Err(InvalidPrkLength);
    }
    Ok(put(H::begin(prk)))
}

pub fn stub_expand_multi_info<H, I>(this: &Hkdf<H, I>, info_components: &[&[u8]], okm: &mut [u8]) -> Result<(), InvalidLength>
where
    H: OutputSizeUser + FastHmac,
    I: HmacImpl<H>,
{
    let nh = <H as OutputSizeUser>::output_size();
    if okm.len() > nh * 255 {
        return Err(InvalidLength);
    }
    let keyed: H::St = get(this);
    let l = okm.len();
    let mut t = [0u8; 72];
    let mut tlen = 0usize;
    let mut done = 0usize;
    let mut counter: u8 = 1;
    while done < l {
        let mut st = keyed;
        H::absorb(&mut st, &t[..tlen]);
        let mut k = 0;
        while k < info_components.len() {
            H::absorb(&mut st, info_components[k]);
            k += 1;
        }
        H::absorb(&mut st, &[counter]);
        H::finish(&st, &mut t[..nh]);
        tlen = nh;
        let take = if l - done < nh { l - done } else { nh };
        let mut j = 0;
        while j < take {
            okm[done + j] = t[j];
            j += 1;
        }
        done += take;
        counter = counter.wrapping_add(1);
    }
    Ok(())
}

/// always false in this design (kept so that harnesses can assert the stub layer was used as intended)
pub fn arena_overflowed() -> bool {
    false
}

// ---------------------------------------------------------------------------------------------
// ScriptHash instantiation: HMAC is an arbitrary function - every HMAC output is taken from a
// harness-filled queue and the (key length, message) it was asked for is logged.
// ---------------------------------------------------------------------------------------------
pub const SC_MSG_CAP: usize = 48;
pub const SC_CALLS: usize = 4;

#[derive(Clone, Copy)]
#[repr(C)]
pub struct ScriptSt {
    pub key_len: u8,
    pub msg_len: u8,
    pub overflow: bool,
    pub msg: [u8; SC_MSG_CAP],
}
pub struct ScriptLog {
    pub calls: usize,
    pub out: [[u8; 66]; SC_CALLS],
    pub seen: [ScriptSt; SC_CALLS],
    pub overflow: bool,
}
const SC_EMPTY: ScriptSt = ScriptSt { key_len: 0, msg_len: 0, overflow: false, msg: [0; SC_MSG_CAP] };
pub static mut SCRIPT: ScriptLog = ScriptLog { calls: 0, out: [[0u8; 66]; SC_CALLS], seen: [SC_EMPTY; SC_CALLS], overflow: false };
pub fn script() -> &'static mut ScriptLog {
    unsafe { &mut *core::ptr::addr_of_mut!(SCRIPT) }
}

impl FastHmac for ScriptHash {
    type St = ScriptSt;
    fn begin(key: &[u8]) -> ScriptSt {
        let mut st = SC_EMPTY;
        st.key_len = key.len() as u8;
        st
    }
    fn absorb(st: &mut ScriptSt, data: &[u8]) {
        let mut i = 0;
        while i < data.len() {
            if (st.msg_len as usize) < SC_MSG_CAP {
                st.msg[st.msg_len as usize] = data[i];
                st.msg_len += 1;
            } else {
                st.overflow = true;
            }
            i += 1;
        }
    }
    fn finish(st: &ScriptSt, out: &mut [u8]) {
        let s = script();
        if st.overflow || s.calls >= SC_CALLS {
            s.overflow = true;
            return;
        }
        s.seen[s.calls] = *st;
        let o = s.out[s.calls];
        let mut i = 0;
        while i < 66 {
            if i < out.len() {
                out[i] = o[i];
            }
            i += 1;
        }
        s.calls += 1;
    }
}

// ---------------------------------------------------------------------------------------------
// EndsHash instantiation: HMAC (RFC 2104, block = 8) over the O(1)-per-update sketch hash, for
// inputs of symbolic length up to 64 KiB and beyond.
// ---------------------------------------------------------------------------------------------
#[derive(Clone, Copy)]
#[repr(C)]
pub struct EndsSt {
    pub sk: Sketch,
    pub k0: [u8; 8],
}
fn ends_k0(key: &[u8]) -> [u8; 8] {
    let mut k0 = [0u8; 8];
    if key.len() > 8 {
        let mut s = sketch_new();
        sketch_absorb(&mut s, key);
        k0 = sketch_finish(&s);
    } else {
        let mut i = 0;
        while i < 8 {
            if i < key.len() {
                k0[i] = key[i];
            }
            i += 1;
        }
    }
    k0
}
impl FastHmac for EndsHash {
    type St = EndsSt;
    fn begin(key: &[u8]) -> EndsSt {
        let k0 = ends_k0(key);
        let mut ipad = [0u8; 8];
        let mut i = 0;
        while i < 8 {
            ipad[i] = k0[i] ^ 0x36;
            i += 1;
        }
        let mut st = EndsSt { sk: sketch_new(), k0 };
        sketch_absorb(&mut st.sk, &ipad);
        st
    }
    fn absorb(st: &mut EndsSt, data: &[u8]) {
        sketch_absorb(&mut st.sk, data);
    }
    fn finish(st: &EndsSt, out: &mut [u8]) {
        let mut opad = [0u8; 8];
        let mut i = 0;
        while i < 8 {
            opad[i] = st.k0[i] ^ 0x5c;
            i += 1;
        }
        let inner = sketch_finish(&st.sk);
        let mut o = sketch_new();
        sketch_absorb(&mut o, &opad);
        sketch_absorb(&mut o, &inner);
        out.copy_from_slice(&sketch_finish(&o));
    }
}
