//! A cheap functional stand-in for the `hkdf`/`hmac` crates (third-party primitives, like SHA-2),
//! applied with `#[kani::stub]` to the five hkdf entry points hpke calls:
//!   HkdfExtract::new / input_ikm / finalize,  Hkdf::from_prk / expand_multi_info.
//! Measured: one HMAC through the real generic-array/digest/hmac/hkdf machinery costs ~70k symbolic
//! execution steps even over an 8-byte toy hash; a key schedule is >1.2M steps and 17-20 min.
//!
//! Contract assumed (and tied to the real crates by the UN-stubbed harnesses c03_*, which compare
//! real hkdf+hmac over the same model hash with the hand-written RFC 2104/5869 reference):
//!   extract(salt, ikm...) = HMAC-H(salt, concat(ikm...)),  from_prk(prk) fails iff |prk| < Nh,
//!   expand(info..., L) fails iff L > 255*Nh, else T(i) = HMAC-H(prk, T(i-1) | info | i).
//!
//! The real `Hkdf`/`HkdfExtract` values are used as OPAQUE containers: the stubs never interpret
//! their private fields, they only keep their own 24-byte state in the object's bytes, so nothing
//! depends on the crates' struct layout.  Every function that looks inside such a value is
//! stubbed - which is all five that hpke uses.  (A first design kept the state in a global ghost
//! arena indexed by an id parked in the object; symbolic array indices made that slower than the
//! real code.)  Only the LinHash instantiation is supported: its HMAC state fits the container.

use digest::{Output, OutputSizeUser};
use hkdf::{Hkdf, HkdfExtract, HmacImpl, InvalidLength, InvalidPrkLength};
use hpke::verif_model::{LinHash, LIN_K, LIN_SEED};

/// HMAC-LinHash state: running inner hash + the padded key K0 (RFC 2104)
#[derive(Clone, Copy)]
#[repr(C)]
pub struct LinSt {
    pub acc: u64,
    pub len: u64,
    pub k0: [u8; 8],
}

pub trait FastHmac: OutputSizeUser {
    fn is_lin() -> bool;
}
impl FastHmac for LinHash {
    fn is_lin() -> bool {
        true
    }
}

fn put<T>(st: LinSt) -> T {
    assert!(core::mem::size_of::<T>() >= core::mem::size_of::<LinSt>(), "container too small for the HKDF stub layer");
    let mut m = core::mem::MaybeUninit::<T>::zeroed();
    unsafe {
        core::ptr::write_unaligned(m.as_mut_ptr() as *mut LinSt, st);
        m.assume_init()
    }
}
fn get<T>(t: &T) -> LinSt {
    unsafe { core::ptr::read_unaligned(t as *const T as *const LinSt) }
}
fn set<T>(t: &mut T, st: LinSt) {
    unsafe { core::ptr::write_unaligned(t as *mut T as *mut LinSt, st) }
}

pub fn lin_absorb(acc: &mut u64, len: &mut u64, data: &[u8]) {
    let mut i = 0;
    while i < data.len() {
        *acc = acc.rotate_left(5) ^ (data[i] as u64) ^ LIN_K;
        *len += 1;
        i += 1;
    }
}
pub fn lin_finish(acc: u64, len: u64) -> [u8; 8] {
    (acc ^ len.rotate_left(29)).to_be_bytes()
}
/// K0: the key padded with zeros to the block size (8), or hashed first if longer
fn lin_k0(key: &[u8]) -> [u8; 8] {
    let mut k0 = [0u8; 8];
    if key.len() > 8 {
        let (mut a, mut l) = (LIN_SEED, 0u64);
        lin_absorb(&mut a, &mut l, key);
        k0 = lin_finish(a, l);
    } else {
        let mut i = 0;
        while i < 8 {
            if i < key.len() {
                k0[i] = key[i];
            }
            i += 1;
        }
    }
    k0
}
fn lin_begin(k0: [u8; 8]) -> LinSt {
    let mut ipad = [0u8; 8];
    let mut i = 0;
    while i < 8 {
        ipad[i] = k0[i] ^ 0x36;
        i += 1;
    }
    let mut st = LinSt { acc: LIN_SEED, len: 0, k0 };
    lin_absorb(&mut st.acc, &mut st.len, &ipad);
    st
}
fn lin_end(st: &LinSt) -> [u8; 8] {
    let mut opad = [0u8; 8];
    let mut i = 0;
    while i < 8 {
        opad[i] = st.k0[i] ^ 0x5c;
        i += 1;
    }
    let inner = lin_finish(st.acc, st.len);
    let (mut a, mut l) = (LIN_SEED, 0u64);
    lin_absorb(&mut a, &mut l, &opad);
    lin_absorb(&mut a, &mut l, &inner);
    lin_finish(a, l)
}

fn out_from<H: OutputSizeUser>(bytes: &[u8]) -> Output<H> {
    // GenericArray<u8, N> is a transparent wrapper around [u8; N]
    assert!(bytes.len() >= <H as OutputSizeUser>::output_size());
    unsafe { core::ptr::read_unaligned(bytes.as_ptr() as *const Output<H>) }
}

pub fn stub_extract_new<H, I>(salt: Option<&[u8]>) -> HkdfExtract<H, I>
where
    H: OutputSizeUser + FastHmac,
    I: HmacImpl<H>,
{
    assert!(H::is_lin() && <H as OutputSizeUser>::output_size() == 8);
    let k0 = match salt {
        Some(s) => lin_k0(s),
        None => [0u8; 8], // HashLen zeros
    };
    put(lin_begin(k0))
}

pub fn stub_input_ikm<H, I>(this: &mut HkdfExtract<H, I>, ikm: &[u8])
where
    H: OutputSizeUser + FastHmac,
    I: HmacImpl<H>,
{
    let mut st = get(this);
    lin_absorb(&mut st.acc, &mut st.len, ikm);
    set(this, st);
}

pub fn stub_finalize<H, I>(this: HkdfExtract<H, I>) -> (Output<H>, Hkdf<H, I>)
where
    H: OutputSizeUser + FastHmac,
    I: HmacImpl<H>,
{
    let st = get(&this);
    core::mem::forget(this);
    let prk = lin_end(&st);
    // the expander keyed with PRK (8 bytes = one block, so K0 = PRK)
    (out_from::<H>(&prk), put(LinSt { acc: 0, len: 0, k0: prk }))
}

pub fn stub_from_prk<H, I>(prk: &[u8]) -> Result<Hkdf<H, I>, InvalidPrkLength>
where
    H: OutputSizeUser + FastHmac,
    I: HmacImpl<H>,
{
    assert!(H::is_lin());
    if prk.len() < <H as OutputSizeUser>::output_size() {
        return Err(InvalidPrkLength);
    }
    Ok(put(LinSt { acc: 0, len: 0, k0: lin_k0(prk) }))
}

pub fn stub_expand_multi_info<H, I>(this: &Hkdf<H, I>, info_components: &[&[u8]], okm: &mut [u8]) -> Result<(), InvalidLength>
where
    H: OutputSizeUser + FastHmac,
    I: HmacImpl<H>,
{
    let nh = 8usize;
    if okm.len() > nh * 255 {
        return Err(InvalidLength);
    }
    let k0 = get(this).k0;
    let l = okm.len();
    let mut t = [0u8; 8];
    let mut tlen = 0usize;
    let mut done = 0usize;
    let mut counter: u8 = 1;
    while done < l {
        let mut st = lin_begin(k0);
        lin_absorb(&mut st.acc, &mut st.len, &t[..tlen]);
        let mut k = 0;
        while k < info_components.len() {
            lin_absorb(&mut st.acc, &mut st.len, info_components[k]);
            k += 1;
        }
        lin_absorb(&mut st.acc, &mut st.len, &[counter]);
        t = lin_end(&st);
        tlen = nh;
        let take = if l - done < nh { l - done } else { nh };
        let mut j = 0;
        while j < take {
            okm[done + j] = t[j];
            j += 1;
        }
        done += take;
        counter = counter.wrapping_add(1);
    }
    Ok(())
}

/// always false in this design (kept so that harnesses can assert the stub layer was used as intended)
pub fn arena_overflowed() -> bool {
    false
}
