//! C03-L4: RFC 9180 section 7.1.3 DeriveKeyPair for the NIST curves on the REAL `DhP256/384/521::
//! derive_keypair` (candidate loop, counter byte, bitmask, range check), with the hash as an
//! ARBITRARY function: the hkdf crate is replaced by the stub layer whose ScriptHash instantiation
//! hands out harness-chosen HMAC outputs and logs the HMAC inputs.  The script makes candidate 0 an
//! out-of-range scalar and candidate 1 a valid one, so the loop runs exactly twice.  `pk(sk)` needs
//! curve arithmetic (out of reach): `SecretKey::public_key` is replaced by a stub that performs the
//! final assertions on the secret key it is handed and then ends the path.
#![allow(static_mut_refs)]
use crate::fasthkdf::{script, ScriptSt};
use crate::rfc9180 as rfc;
use crate::util::*;
use hpke::verif_hooks::{DhKeyExchange, DhP256, DhP384, DhP521};
use hpke::verif_model::ScriptKdf;

/// what the stub for `SecretKey::public_key` has to check: filled in by the harness
pub struct Expect {
    pub nsk: usize,
    pub mask: u8,
    pub suite: [u8; 5],
    pub ikm: [u8; 3],
    pub ikm_len: usize,
    pub reached: bool,
}
pub static mut EXPECT: Expect = Expect { nsk: 0, mask: 0, suite: [0; 5], ikm: [0; 3], ikm_len: 0, reached: false };

fn msg_is(st: &ScriptSt, parts: &[&[u8]]) -> bool {
    let mut want = rfc::Bytes::<64>::new();
    let mut k = 0;
    while k < parts.len() {
        want.push(parts[k]);
        k += 1;
    }
    st.msg_len as usize == want.n && eq_bytes(&st.msg[..want.n], want.as_slice())
}

/// replaces `elliptic_curve::SecretKey::<C>::public_key`: the secret key derive_keypair settled on
/// must be candidate 1 with the RFC bitmask applied, and the three HMAC calls made so far must be
/// exactly LabeledExtract("", "dkp_prk", ikm) and LabeledExpand(prk, "candidate", I2OSP(i,1), Nsk)
/// for i = 0, 1
pub fn stub_public_key<C>(sk: &elliptic_curve::SecretKey<C>) -> elliptic_curve::PublicKey<C>
where
    C: elliptic_curve::Curve + elliptic_curve::CurveArithmetic,
{
    let e = unsafe { &mut EXPECT };
    let s = script();
    assert!(!s.overflow);
    assert!(s.calls == 3, "DeriveKeyPair must try candidate 0, reject it, and accept candidate 1");
    let nsk = e.nsk;
    // 1. dkp_prk = LabeledExtract("", "dkp_prk", ikm)
    assert!(s.seen[0].key_len == 0, "dkp_prk is extracted with an empty salt");
    assert!(msg_is(&s.seen[0], &[b"HPKE-v1", &e.suite, b"dkp_prk", &e.ikm[..e.ikm_len]]));
    // 2./3. bytes = LabeledExpand(dkp_prk, "candidate", I2OSP(counter, 1), Nsk)
    let l = [(nsk >> 8) as u8, nsk as u8];
    assert!(s.seen[1].key_len == 66 && s.seen[2].key_len == 66, "expand is keyed with the PRK");
    assert!(msg_is(&s.seen[1], &[&l, b"HPKE-v1", &e.suite, b"candidate", &[0u8], &[1u8]]), "candidate 0: label, counter byte 0, length prefix Nsk");
    assert!(msg_is(&s.seen[2], &[&l, b"HPKE-v1", &e.suite, b"candidate", &[1u8], &[1u8]]), "candidate 1: label, counter byte 1, length prefix Nsk");
    // 4. sk = candidate 1 with bytes[0] &= bitmask
    let got = sk.to_bytes();
    assert!(got.len() == nsk);
    let mut i = 0;
    while i < 66 {
        if i < nsk {
            let want = if i == 0 { s.out[2][0] & e.mask } else { s.out[2][i] };
            assert!(got[i] == want, "private key is not candidate 1 with the bitmask applied");
        }
        i += 1;
    }
    e.reached = true;
    kani::cover!(true, "pk(sk) reached with the accepted candidate");
    // pk(sk) itself is curve arithmetic: end the path here
    kani::assume(false);
    loop {}
}

macro_rules! nist_derive_harness {
    ($name:ident, $dh:ty, $nsk:expr, $mask:expr, $order:expr, $kem_id:expr) => {
        #[kani::proof]
        #[kani::unwind(80)]
        #[kani::stub(zeroize::optimization_barrier, noop_barrier)]
        #[kani::stub(hkdf::HkdfExtract::new, crate::fasthkdf::stub_extract_new)]
        #[kani::stub(hkdf::HkdfExtract::input_ikm, crate::fasthkdf::stub_input_ikm)]
        #[kani::stub(hkdf::HkdfExtract::finalize, crate::fasthkdf::stub_finalize)]
        #[kani::stub(hkdf::Hkdf::from_prk, crate::fasthkdf::stub_from_prk)]
        #[kani::stub(hkdf::Hkdf::expand_multi_info, crate::fasthkdf::stub_expand_multi_info)]
        #[kani::stub(elliptic_curve::SecretKey::public_key, stub_public_key)]
        pub fn $name() {
            const NSK: usize = $nsk;
            let suite = rfc::kem_suite_id($kem_id);
            let ikm: [u8; 3] = kani::any();
            let il = any_len(3);
            let s = script();
            s.out[0] = kani::any(); // the PRK: arbitrary
            let c0: [u8; 66] = kani::any();
            let c1: [u8; 66] = kani::any();
            // candidate 0 is out of range AFTER masking (>= n, or zero), candidate 1 is a valid scalar
            let mut m0 = [0u8; NSK];
            let mut m1 = [0u8; NSK];
            m0.copy_from_slice(&c0[..NSK]);
            m1.copy_from_slice(&c1[..NSK]);
            m0[0] &= $mask;
            m1[0] &= $mask;
            kani::assume(rfc::is_zero(&m0) || !rfc::be_less(&m0, &$order));
            kani::assume(!rfc::is_zero(&m1) && rfc::be_less(&m1, &$order));
            s.out[1] = c0;
            s.out[2] = c1;
            unsafe {
                EXPECT = Expect { nsk: NSK, mask: $mask, suite, ikm, ikm_len: il, reached: false };
            }
            let _ = <$dh as DhKeyExchange>::derive_keypair::<ScriptKdf>(&suite, &ikm[..il]);
            // derive_keypair can only come back through pk(sk), where the path ends
            assert!(false, "derive_keypair returned without computing pk(sk)");
        }
    };
}
//@h name=c03_l4_derive_nist_p256 tier=quick mode=func prop=C03 timeout=1200 replay=log desc="real DhP256::derive_keypair with the hash as an arbitrary function: when candidate 0 is out of range and candidate 1 is valid the HMAC inputs are exactly LabeledExtract('', 'dkp_prk', ikm) and LabeledExpand(prk, 'candidate', I2OSP(counter,1), Nsk=32) for counter 0 then 1 under the KEM suite id, and the private key is candidate 1 with bitmask 0xFF applied" bounds="ikm 0..=3 B, PRK and both candidates (all out-of-range / all valid values) symbolic; hkdf crate stubbed (scripted HMAC); pk(sk) cut; unwind 80"
nist_derive_harness!(c03_l4_derive_nist_p256, DhP256, 32, 0xff, rfc::P256_ORDER, 0x0010);
//@h name=c03_l4_derive_nist_p384 tier=quick mode=func prop=C03 timeout=1200 replay=log desc="same for DhP384: Nsk = 48, bitmask 0xFF" bounds="as P-256"
nist_derive_harness!(c03_l4_derive_nist_p384, DhP384, 48, 0xff, rfc::P384_ORDER, 0x0011);
// The P-521 instance (Nsk = 66, bitmask 0x01 - the only curve on which the mask is not the identity) did
// not finish: 2160-3200 s of symbolic execution, then CBMC died, alone on the machine, with and without
// a larger field-sensitivity bound.  It is NOT registered; the P-521 bitmask is therefore not decided.
