//! Long inputs (C02 / C07 / C13 "64 KiB+"): the key schedule with info, psk and psk_id of SYMBOLIC
//! LENGTH UP TO 66 000 bytes, compared with the RFC reference.  The key-schedule KDF is `EndsKdf`,
//! whose model hash is a sketch (length, first 64 bytes, last byte, a few far probes) that costs O(1)
//! per update; the KEM keeps `LinKdf`.  A truncation, a dropped tail, a length confusion or a panic at
//! a length boundary (255, 256, 65535, 65536) is a counterexample.  All default Kani checks are on.
use crate::c03::{enc_from, G8, KEM_ID};
use crate::models::*;
use crate::rfc9180 as rfc;
use crate::util::*;
use hpke::kem::ToyKemLin;
use hpke::verif_model::{EndsHash, EndsKdf, LinHash, XorPrivateKey, XorPublicKey};
use hpke::{setup_receiver, HpkeError, OpModeR, PskBundle};

pub const LONG: usize = 66000;
const ENDS_KDF_ID: u16 = 0x7501;
const AEAD_ID: u16 = 0x7401;

macro_rules! stubbed_long {
    ($(#[$m:meta])* pub fn $name:ident() $body:block) => {
        $(#[$m])*
        #[kani::stub(zeroize::optimization_barrier, noop_barrier)]
        #[kani::stub(hkdf::HkdfExtract::new, crate::fasthkdf::stub_extract_new)]
        #[kani::stub(hkdf::HkdfExtract::input_ikm, crate::fasthkdf::stub_input_ikm)]
        #[kani::stub(hkdf::HkdfExtract::finalize, crate::fasthkdf::stub_finalize)]
        #[kani::stub(hkdf::Hkdf::from_prk, crate::fasthkdf::stub_from_prk)]
        #[kani::stub(hkdf::Hkdf::expand_multi_info, crate::fasthkdf::stub_expand_multi_info)]
        pub fn $name() $body
    };
}

stubbed_long! {
//@h name=c02_long_info tier=thorough mode=full slots=2 prop=C02 also=C07,C13 timeout=7200 desc="Base-mode setup_receiver with an info string of ANY length 0..=66000 (symbolic length and contents): key, base nonce and exporter secret equal the RFC key schedule of the full string - nothing truncated, dropped or mis-sized at 255/256/65535/65536 - and no panic or overflow (all default checks on)" bounds="info length 0..=66000 symbolic, contents symbolic (sketch hash observes length, first bytes, last byte, far probes); all skR, enc; unwind 50"
#[kani::proof]
#[kani::unwind(50)]
pub fn c02_long_info() {
    let sk_r: u16 = kani::any();
    let enc: u16 = kani::any();
    let info: [u8; LONG] = kani::any();
    let il = any_len(LONG);
    let res = setup_receiver::<SpyAead16, EndsKdf, ToyKemLin>(&OpModeR::Base, &XorPrivateKey(sk_r), &enc_from(enc), &info[..il]);
    match (res, rfc::decap::<G8, LinHash>(KEM_ID, enc, sk_r, None)) {
        (Ok(ctx), Some(ss)) => {
            let suite = rfc::full_suite_id(KEM_ID, ENDS_KDF_ID, AEAD_ID);
            let sched = rfc::key_schedule::<EndsHash>(rfc::MODE_BASE, ss.as_slice(), &info[..il], &[], &[], &suite, 16, 12);
            assert!(eq_bytes(&spy().new_key[..16], sched.key.as_slice()));
            assert!(eq_bytes(ctx.verif_base_nonce(), sched.base_nonce.as_slice()));
            assert!(eq_bytes(ctx.verif_exporter_secret(), sched.exporter_secret.as_slice()));
        }
        (Err(e), None) => assert!(e == HpkeError::DecapError),
        _ => assert!(false),
    }
    kani::cover!(il == LONG, "66000-byte info");
    kani::cover!(il == 65536, "info one byte over 65535");
    kani::cover!(il == 0, "empty info");
}
}

macro_rules! long_psk_harness {
    ($name:ident, $long_psk:expr) => {
        stubbed_long! {
        #[kani::proof]
        #[kani::unwind(50)]
        pub fn $name() {
            let sk_r: u16 = kani::any();
            let enc: u16 = kani::any();
            let long: [u8; LONG] = kani::any();
            let ll = any_len(LONG);
            let short: [u8; 2] = kani::any();
            let sl = any_len(2);
            kani::assume(ll >= 1 && sl >= 1);
            let (psk, pid): (&[u8], &[u8]) = if $long_psk { (&long[..ll], &short[..sl]) } else { (&short[..sl], &long[..ll]) };
            let bundle = PskBundle::new(psk, pid).unwrap();
            let res = setup_receiver::<SpyAead16, EndsKdf, ToyKemLin>(&OpModeR::Psk(bundle), &XorPrivateKey(sk_r), &enc_from(enc), &[]);
            match (res, rfc::decap::<G8, LinHash>(KEM_ID, enc, sk_r, None)) {
                (Ok(ctx), Some(ss)) => {
                    let suite = rfc::full_suite_id(KEM_ID, ENDS_KDF_ID, AEAD_ID);
                    let sched = rfc::key_schedule::<EndsHash>(rfc::MODE_PSK, ss.as_slice(), &[], psk, pid, &suite, 16, 12);
                    assert!(eq_bytes(&spy().new_key[..16], sched.key.as_slice()));
                    assert!(eq_bytes(ctx.verif_base_nonce(), sched.base_nonce.as_slice()));
                    assert!(eq_bytes(ctx.verif_exporter_secret(), sched.exporter_secret.as_slice()));
                }
                (Err(e), None) => assert!(e == HpkeError::DecapError),
                _ => assert!(false),
            }
            kani::cover!(ll == 65536, "one byte over 65535");
        }
        }
    };
}
// NOT registered (did not finish reliably: 2050 s alone, > 2 h under load): name=c02_long_psk desc="Psk-mode setup_receiver with a PSK of ANY length 1..=66000: key schedule equals the RFC's on the full string, no panic" bounds="psk length 1..=66000 symbolic, psk_id 1..=2 B; all skR, enc; unwind 50"
long_psk_harness!(c02_long_psk, true);
//@h name=c02_long_psk_id tier=thorough mode=full slots=2 prop=C02 also=C07,C13,C15 timeout=7200 desc="Psk-mode setup_receiver with a PSK identifier of ANY length 1..=66000: key schedule equals the RFC's on the full string, no panic" bounds="psk_id length 1..=66000 symbolic, psk 1..=2 B; all skR, enc; unwind 50"
long_psk_harness!(c02_long_psk_id, false);

static PATTERN: [u8; LONG] = [0xa7u8; LONG];

stubbed_long! {
//@h name=c02_long_info_len tier=quick mode=full prop=C02 also=C07,C13 timeout=1800 desc="cheaper companion of c02_long_info for every change: info of ANY length 0..=66000 with fixed contents: the key schedule equals the RFC's on the full string (a truncation or length confusion at 255/256/65535/65536 changes the length the hash sees), no panic" bounds="info length 0..=66000 symbolic, contents a fixed pattern; all skR, enc; unwind 50"
#[kani::proof]
#[kani::unwind(50)]
pub fn c02_long_info_len() {
    let sk_r: u16 = kani::any();
    let enc: u16 = kani::any();
    let il = any_len(LONG);
    let info = &PATTERN[..il];
    let res = setup_receiver::<SpyAead16, EndsKdf, ToyKemLin>(&OpModeR::Base, &XorPrivateKey(sk_r), &enc_from(enc), info);
    match (res, rfc::decap::<G8, LinHash>(KEM_ID, enc, sk_r, None)) {
        (Ok(ctx), Some(ss)) => {
            let suite = rfc::full_suite_id(KEM_ID, ENDS_KDF_ID, AEAD_ID);
            let sched = rfc::key_schedule::<EndsHash>(rfc::MODE_BASE, ss.as_slice(), info, &[], &[], &suite, 16, 12);
            assert!(eq_bytes(&spy().new_key[..16], sched.key.as_slice()));
            assert!(eq_bytes(ctx.verif_base_nonce(), sched.base_nonce.as_slice()));
            assert!(eq_bytes(ctx.verif_exporter_secret(), sched.exporter_secret.as_slice()));
        }
        (Err(e), None) => assert!(e == HpkeError::DecapError),
        _ => assert!(false),
    }
    kani::cover!(il == 65536, "info one byte over 65535");
}
}

macro_rules! long_psk_len_harness {
    ($name:ident, $long_psk:expr) => {
        stubbed_long! {
        #[kani::proof]
        #[kani::unwind(50)]
        pub fn $name() {
            let sk_r: u16 = kani::any();
            let enc: u16 = kani::any();
            let ll = any_len(LONG);
            let short: [u8; 2] = kani::any();
            let sl = any_len(2);
            kani::assume(ll >= 1 && sl >= 1);
            let long = &PATTERN[..ll];
            let (psk, pid): (&[u8], &[u8]) = if $long_psk { (long, &short[..sl]) } else { (&short[..sl], long) };
            let bundle = PskBundle::new(psk, pid).unwrap();
            let res = setup_receiver::<SpyAead16, EndsKdf, ToyKemLin>(&OpModeR::Psk(bundle), &XorPrivateKey(sk_r), &enc_from(enc), &[]);
            match (res, rfc::decap::<G8, LinHash>(KEM_ID, enc, sk_r, None)) {
                (Ok(ctx), Some(ss)) => {
                    let suite = rfc::full_suite_id(KEM_ID, ENDS_KDF_ID, AEAD_ID);
                    let sched = rfc::key_schedule::<EndsHash>(rfc::MODE_PSK, ss.as_slice(), &[], psk, pid, &suite, 16, 12);
                    assert!(eq_bytes(&spy().new_key[..16], sched.key.as_slice()));
                    assert!(eq_bytes(ctx.verif_base_nonce(), sched.base_nonce.as_slice()));
                    assert!(eq_bytes(ctx.verif_exporter_secret(), sched.exporter_secret.as_slice()));
                }
                (Err(e), None) => assert!(e == HpkeError::DecapError),
                _ => assert!(false),
            }
            kani::cover!(ll == 65536, "one byte over 65535");
        }
        }
    };
}
//@h name=c02_long_psk_len tier=quick mode=full prop=C02 also=C07,C13,C15 timeout=1800 desc="Psk-mode setup_receiver with a PSK of ANY length 1..=66000 and fixed contents: the key schedule equals the RFC's on the full string (a truncation or length confusion changes the length the hash sees), no panic" bounds="psk length 1..=66000 symbolic, contents a fixed pattern; psk_id 1..=2 B symbolic; all skR, enc; unwind 50"
long_psk_len_harness!(c02_long_psk_len, true);
//@h name=c02_long_psk_id_len tier=quick mode=full prop=C02 also=C07,C13,C15 timeout=1800 desc="same with a PSK identifier of ANY length 1..=66000 and fixed contents" bounds="psk_id length 1..=66000 symbolic, contents a fixed pattern; psk 1..=2 B symbolic; all skR, enc; unwind 50"
long_psk_len_harness!(c02_long_psk_id_len, false);
