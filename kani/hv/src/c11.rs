//! C11 - secret export (DESIGN.md section 2, C11)
use crate::models::*;
use crate::rfc9180 as rfc;
use crate::util::*;
use hpke::aead::{AeadTag, ExportOnlyAead};
use hpke::kdf::{HkdfSha256, HkdfSha384, HkdfSha512};
use hpke::kem::{ToyKemLin, X25519HkdfSha256};
use hpke::verif_hooks::*;
use hpke::verif_model::{ConstKdf, LinHash, LinKdf};
use hpke::{Deserializable, HpkeError, Serializable};

type M = ToyKemLin;
const XC: usize = 3;

fn suite() -> [u8; 10] {
    rfc::full_suite_id(0x7a01, 0x7101, 0x7401)
}

macro_rules! export_value_harness {
    ($name:ident, $l:expr) => {
        #[kani::proof]
        #[kani::unwind(20)]
        #[kani::stub(zeroize::optimization_barrier, noop_barrier)]
        #[kani::stub(hkdf::HkdfExtract::new, crate::fasthkdf::stub_extract_new)]
        #[kani::stub(hkdf::HkdfExtract::input_ikm, crate::fasthkdf::stub_input_ikm)]
        #[kani::stub(hkdf::HkdfExtract::finalize, crate::fasthkdf::stub_finalize)]
        #[kani::stub(hkdf::Hkdf::from_prk, crate::fasthkdf::stub_from_prk)]
        #[kani::stub(hkdf::Hkdf::expand_multi_info, crate::fasthkdf::stub_expand_multi_info)]
        pub fn $name() {
            const L: usize = $l;
            let key: [u8; 16] = kani::any();
            let base: [u8; 12] = kani::any();
            let exp: [u8; 8] = kani::any();
            let s = ctx_s_from_parts::<SpyAead16, LinKdf, M>(&key, &base, &exp, kani::any(), kani::any());
            let r = ctx_r_from_parts::<SpyAead16, LinKdf, M>(&key, &base, &exp, kani::any(), kani::any());
            assert!(s.verif_suite_id() == suite() && r.verif_suite_id() == suite());
            let xc: [u8; XC] = kani::any();
            let xl = any_len(XC);
            let mut got_s = [0u8; L];
            let mut got_r = [0u8; L];
            let mut want = [0u8; L];
            assert!(s.export(&xc[..xl], &mut got_s).is_ok());
            assert!(r.export(&xc[..xl], &mut got_r).is_ok());
            assert!(rfc::export::<LinHash>(&exp, &suite(), &xc[..xl], &mut want));
            assert!(got_s == want);
            assert!(got_r == want);
            kani::cover!(xl == XC, "longest context");
            kani::cover!(xl == 0, "empty context");
        }
    };
}
//@h name=c11_l1_export_value_l9 tier=quick mode=func also=C02 timeout=1200 desc="AeadCtxS::export and AeadCtxR::export == RFC 9180 LabeledExpand(exporter_secret, 'sec', exporter_context, L) under the context's full suite id for an arbitrary exporter secret and counter state; sender == receiver; L = 9 (two HKDF blocks with Nh=8)" bounds="exporter secret (64 bit), seq, overflowed symbolic; exporter context 0..=3 B symbolic; L = 9 concrete (a symbolic output length makes the memcpy sizes symbolic: >20 min); LinHash; unwind 20"
export_value_harness!(c11_l1_export_value_l9, 9);
//@h name=c11_l1_export_value_l0 tier=quick mode=func timeout=1200 desc="same for L = 0 (empty export succeeds and writes nothing)" bounds="L = 0"
export_value_harness!(c11_l1_export_value_l0, 0);
//@h name=c11_l1_export_value_l17 tier=thorough mode=func timeout=1800 desc="same for L = 17 (three HKDF blocks, last one partial)" bounds="L = 17"
export_value_harness!(c11_l1_export_value_l17, 17);
//@h name=c11_l1_export_value_l8 tier=thorough mode=func timeout=1800 desc="same for L = 8 (exactly one block)" bounds="L = 8"
export_value_harness!(c11_l1_export_value_l8, 8);

//@h name=c11_l2_export_frame tier=quick mode=func timeout=1200 desc="export is a pure function of (exporter secret, context, L): two receiver contexts equal except for an arbitrary (seq, overflowed) export identically; on one context the value before, after a rejected open, after an accepted open and on repetition is the same; a sender context gives the same value before and after a seal" bounds="secrets, seq, overflowed symbolic; exporter context 0..=2 B; L = 5; AEAD verdicts symbolic; unwind 20"
#[kani::proof]
#[kani::unwind(20)]
#[kani::stub(zeroize::optimization_barrier, noop_barrier)]
#[kani::stub(hkdf::HkdfExtract::new, crate::fasthkdf::stub_extract_new)]
#[kani::stub(hkdf::HkdfExtract::input_ikm, crate::fasthkdf::stub_input_ikm)]
#[kani::stub(hkdf::HkdfExtract::finalize, crate::fasthkdf::stub_finalize)]
#[kani::stub(hkdf::Hkdf::from_prk, crate::fasthkdf::stub_from_prk)]
#[kani::stub(hkdf::Hkdf::expand_multi_info, crate::fasthkdf::stub_expand_multi_info)]
pub fn c11_l2_export_frame() {
    let key: [u8; 16] = kani::any();
    let base: [u8; 12] = kani::any();
    let exp: [u8; 8] = kani::any();
    let seq: u64 = kani::any();
    let mut r = ctx_r_from_parts::<SpyAead16, LinKdf, M>(&key, &base, &exp, seq, false);
    let r0 = ctx_r_from_parts::<SpyAead16, LinKdf, M>(&key, &base, &exp, 0, false);
    let r1 = ctx_r_from_parts::<SpyAead16, LinKdf, M>(&key, &base, &exp, kani::any(), true);
    let mut s = ctx_s_from_parts::<SpyAead16, LinKdf, M>(&key, &base, &exp, seq, false);
    let xc: [u8; 2] = kani::any();
    let xl = any_len(2);
    const L: usize = 5;
    let mut e0 = [0u8; L];
    let mut e1 = [0u8; L];
    let mut e2 = [0u8; L];
    let mut e3 = [0u8; L];
    let mut e4 = [0u8; L];
    let mut e5 = [0u8; L];
    assert!(r0.export(&xc[..xl], &mut e0).is_ok());
    assert!(r1.export(&xc[..xl], &mut e1).is_ok());
    let tag = AeadTag::<SpyAead16>::from_bytes(&[7u8; 16]).unwrap();
    let mut buf: [u8; 2] = kani::any();
    spy().dec_ok = false;
    assert!(r.open_in_place_detached(&mut buf, &[], &tag).is_err());
    assert!(r.export(&xc[..xl], &mut e2).is_ok());
    spy().dec_ok = true;
    assert!(r.open_in_place_detached(&mut buf, &[], &tag).is_ok());
    assert!(r.export(&xc[..xl], &mut e3).is_ok());
    assert!(r.export(&xc[..xl], &mut e4).is_ok());
    spy().enc_ok = true;
    assert!(s.seal_in_place_detached(&mut buf, &[]).is_ok());
    assert!(s.export(&xc[..xl], &mut e5).is_ok());
    assert!(e1 == e0, "export depends on the counter state");
    assert!(e2 == e0, "export changed by a rejected open");
    assert!(e3 == e0, "export changed by an accepted open");
    assert!(e4 == e0, "export not repeatable");
    assert!(e5 == e0, "sender export differs / changed by a seal");
}

static mut BIG: [u8; 70000] = [0u8; 70000];

fn const_ctx() -> hpke::aead::AeadCtxS<SpyAead16, ConstKdf, M> {
    ctx_s_from_parts::<SpyAead16, ConstKdf, M>(&[1u8; 16], &[2u8; 12], &[3u8; 2], 0, false)
}

//@h name=c11_l3_limit_ok_small tier=quick mode=func timeout=1200 desc="length limit, success half, on a KDF with Nh = 2 (constant hash): every L in 0..=40 succeeds" bounds="L symbolic in 0..=40 (up to 20 HKDF blocks); unwind 24"
#[kani::proof]
#[kani::unwind(24)]
#[kani::stub(zeroize::optimization_barrier, noop_barrier)]
pub fn c11_l3_limit_ok_small() {
    let ctx = const_ctx();
    let l = any_len(40);
    let mut buf = [0u8; 40];
    assert!(ctx.export(&[], &mut buf[..l]).is_ok());
    kani::cover!(l == 40, "20 blocks");
}

// (an un-stubbed variant of the boundary harness - 255 HKDF blocks through the real hkdf crate with Nh = 2 -
// did not finish in 90 min at 10 GB and is not registered)
//@h name=c11_l3_limit_ok_max tier=quick mode=func timeout=1800 desc="length limit, boundary (hkdf crate replaced by its functional model, Nh = 8): an export of exactly 255*Nh = 2040 bytes SUCCEEDS and one of 2041 bytes fails with KdfOutputTooLong - the largest legal length is not rejected by hpke's own pre-checks" bounds="L = 2040 and 2041 (concrete; 255 HKDF blocks executed by the stub layer); exporter secret symbolic; unwind 258"
#[kani::proof]
#[kani::unwind(258)]
#[kani::stub(zeroize::optimization_barrier, noop_barrier)]
#[kani::stub(hkdf::HkdfExtract::new, crate::fasthkdf::stub_extract_new)]
#[kani::stub(hkdf::HkdfExtract::input_ikm, crate::fasthkdf::stub_input_ikm)]
#[kani::stub(hkdf::HkdfExtract::finalize, crate::fasthkdf::stub_finalize)]
#[kani::stub(hkdf::Hkdf::from_prk, crate::fasthkdf::stub_from_prk)]
#[kani::stub(hkdf::Hkdf::expand_multi_info, crate::fasthkdf::stub_expand_multi_info)]
pub fn c11_l3_limit_ok_max() {
    let exp: [u8; 8] = kani::any();
    let ctx = ctx_s_from_parts::<SpyAead16, LinKdf, M>(&[1u8; 16], &[2u8; 12], &exp, 0, false);
    let buf = unsafe { &mut *core::ptr::addr_of_mut!(BIG) };
    assert!(ctx.export(&[], &mut buf[..2040]).is_ok(), "export of exactly 255*Nh bytes must succeed");
    assert!(matches!(ctx.export(&[], &mut buf[..2041]), Err(HpkeError::KdfOutputTooLong)));
}

//@h name=c11_l3_limit_err tier=quick mode=func timeout=1200 desc="length limit, failure half, Nh = 2: EVERY L in 511..=70000 fails with KdfOutputTooLong (includes the 2-byte length-prefix boundary 65535/65536); the HKDF block loop is never entered (its unwinding assertion at bound 20 is discharged as unreachable)" bounds="L symbolic in 511..=70000; unwind 20 with unwinding assertions"
#[kani::proof]
#[kani::unwind(20)]
#[kani::stub(zeroize::optimization_barrier, noop_barrier)]
pub fn c11_l3_limit_err() {
    let ctx = const_ctx();
    let l = any_len(70000);
    kani::assume(l > 510);
    let buf = unsafe { &mut *core::ptr::addr_of_mut!(BIG) };
    let res = ctx.export(&[], &mut buf[..l]);
    assert!(matches!(res, Err(HpkeError::KdfOutputTooLong)));
    kani::cover!(l == 511, "one past the limit");
    kani::cover!(l == 65536, "past the 16-bit length prefix");
}

macro_rules! real_limit_harness {
    ($name:ident, $kdf:ty, $nh:expr) => {
        #[kani::proof]
        #[kani::unwind(130)]
        #[kani::stub(zeroize::optimization_barrier, noop_barrier)]
        pub fn $name() {
            let exp = [0x5au8; $nh];
            let ctx = ctx_r_from_parts::<SpyAead16, $kdf, X25519HkdfSha256>(&[1u8; 16], &[2u8; 12], &exp, 0, false);
            let buf = unsafe { &mut *core::ptr::addr_of_mut!(BIG) };
            // concrete lengths: with a symbolic L the symbolic executor cannot prune the HKDF block
            // loop over real SHA-2 (measured: >13 min, 12 GB); "every L" is decided on the generic
            // code by c11_l3_limit_err, here only the constant 255*Nh of the real type matters
            assert!(matches!(ctx.export(b"ctx", &mut buf[..255 * $nh + 1]), Err(HpkeError::KdfOutputTooLong)));
            assert!(matches!(ctx.export(b"ctx", &mut buf[..65535]), Err(HpkeError::KdfOutputTooLong)));
            assert!(matches!(ctx.export(b"ctx", &mut buf[..65536]), Err(HpkeError::KdfOutputTooLong)));
            assert!(matches!(ctx.export(b"ctx", &mut buf[..70000]), Err(HpkeError::KdfOutputTooLong)));
        }
    };
}
//@h name=c11_l4_limit_sha256 tier=quick mode=func timeout=1800 desc="real HKDF-SHA256 context: L = 255*32+1, 65535, 65536, 70000 => KdfOutputTooLong (error raised before any HKDF block is computed)" bounds="four concrete lengths; concrete exporter secret; unwind 130"
real_limit_harness!(c11_l4_limit_sha256, HkdfSha256, 32);
//@h name=c11_l4_limit_sha384 tier=thorough mode=func timeout=1800 desc="real HKDF-SHA384 context: L = 255*48+1, 65535, 65536, 70000 => KdfOutputTooLong" bounds="four concrete lengths; unwind 130"
real_limit_harness!(c11_l4_limit_sha384, HkdfSha384, 48);
//@h name=c11_l4_limit_sha512 tier=thorough mode=func timeout=1800 desc="real HKDF-SHA512 context: L = 255*64+1, 65535, 65536, 70000 => KdfOutputTooLong" bounds="four concrete lengths; unwind 130"
real_limit_harness!(c11_l4_limit_sha512, HkdfSha512, 64);

// ---- export-only suite -----------------------------------------------------------------------

//@h name=c11_l5_exportonly_export tier=quick mode=func timeout=1200 desc="export-only suite (Nk=0, Nn=128, Nt=0): export == RFC 9180 LabeledExpand under the suite id with aead_id 0xFFFF" bounds="exporter secret symbolic, context 0..=2 B, L = 9; LinHash; unwind 130"
#[kani::proof]
#[kani::unwind(130)]
#[kani::stub(zeroize::optimization_barrier, noop_barrier)]
#[kani::stub(hkdf::HkdfExtract::new, crate::fasthkdf::stub_extract_new)]
#[kani::stub(hkdf::HkdfExtract::input_ikm, crate::fasthkdf::stub_input_ikm)]
#[kani::stub(hkdf::HkdfExtract::finalize, crate::fasthkdf::stub_finalize)]
#[kani::stub(hkdf::Hkdf::from_prk, crate::fasthkdf::stub_from_prk)]
#[kani::stub(hkdf::Hkdf::expand_multi_info, crate::fasthkdf::stub_expand_multi_info)]
pub fn c11_l5_exportonly_export() {
    let exp: [u8; 8] = kani::any();
    let s = ctx_s_from_parts::<ExportOnlyAead, LinKdf, M>(&[], &[0u8; 128], &exp, 0, false);
    let xc: [u8; 2] = kani::any();
    let xl = any_len(2);
    let mut got = [0u8; 9];
    let mut want = [0u8; 9];
    let sid = rfc::full_suite_id(0x7a01, 0x7101, 0xffff);
    assert!(s.verif_suite_id() == sid);
    assert!(s.export(&xc[..xl], &mut got).is_ok());
    assert!(rfc::export::<LinHash>(&exp, &sid, &xc[..xl], &mut want));
    assert!(got == want);
}

//@h name=c11_l5_exportonly_seal_panics tier=quick mode=func timeout=900 replay=log desc="export-only suite: seal_in_place_detached panics on every path instead of producing output" bounds="plaintext 0..=2 B symbolic; should_panic harness; unwind 130"
#[kani::proof]
#[kani::unwind(130)]
#[kani::should_panic]
#[kani::stub(zeroize::optimization_barrier, noop_barrier)]
pub fn c11_l5_exportonly_seal_panics() {
    let mut s = ctx_s_from_parts::<ExportOnlyAead, LinKdf, M>(&[], &[0u8; 128], &[0u8; 8], 0, false);
    let mut buf: [u8; 2] = kani::any();
    let l = any_len(2);
    let _ = s.seal_in_place_detached(&mut buf[..l], &[]);
}

//@h name=c11_l5_exportonly_open_panics tier=quick mode=func timeout=900 replay=log desc="export-only suite: open_in_place_detached panics on every path instead of producing output" bounds="ciphertext 0..=2 B symbolic; should_panic harness; unwind 130"
#[kani::proof]
#[kani::unwind(130)]
#[kani::should_panic]
#[kani::stub(zeroize::optimization_barrier, noop_barrier)]
pub fn c11_l5_exportonly_open_panics() {
    let mut r = ctx_r_from_parts::<ExportOnlyAead, LinKdf, M>(&[], &[0u8; 128], &[0u8; 8], 0, false);
    let mut buf: [u8; 2] = kani::any();
    let l = any_len(2);
    let tag = AeadTag::<ExportOnlyAead>::from_bytes(&[]).unwrap();
    let _ = r.open_in_place_detached(&mut buf[..l], &[], &tag);
}
