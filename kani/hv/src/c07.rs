//! C07 - context binding and C08 - sender authentication (DESIGN.md section 2, C07/C08).
//! Disequalities need an INJECTIVE hash: `InternHash` (symbolic model: equal digests <=> equal
//! messages).  For SHA-2 the corresponding assumption is collision resistance.
//! The hkdf crate is replaced by the stub layer of fasthkdf.rs whose InternHash instantiation models
//! HMAC itself as an injective function of (key, message) (un-stubbed: 16 GB and no result in 34 min).
use crate::models::*;
use crate::util::*;
use hpke::aead::{Aead, AeadCtxR, AeadCtxS, AeadTag};
use hpke::kdf::Kdf;
use hpke::kem::{Kem as KemTrait, ToyKemInt, ToyKemIntB};
use hpke::verif_model::{InternKdf, InternKdfB, XorPrivateKey, XorPublicKey};
use hpke::{setup_receiver, setup_sender, Deserializable, HpkeError, OpModeR, OpModeS, PskBundle, Serializable};

type M = ToyKemInt;
type K = InternKdf;
type AI = IdealAead;

pub struct Secrets {
    pub key: [u8; 16],
    pub nonce: [u8; 12],
    pub exp: [u8; 12],
}
pub fn secrets_r<A: Aead<AeadImpl = IdealImpl<4>>, KK: Kdf, MM: KemTrait>(c: &AeadCtxR<A, KK, MM>) -> Secrets {
    let mut s = Secrets { key: c.verif_encryptor().key, nonce: [0; 12], exp: [0; 12] };
    s.nonce.copy_from_slice(c.verif_base_nonce());
    s.exp.copy_from_slice(c.verif_exporter_secret());
    s
}
pub fn secrets_s<A: Aead<AeadImpl = IdealImpl<4>>, KK: Kdf, MM: KemTrait>(c: &AeadCtxS<A, KK, MM>) -> Secrets {
    let mut s = Secrets { key: c.verif_encryptor().key, nonce: [0; 12], exp: [0; 12] };
    s.nonce.copy_from_slice(c.verif_base_nonce());
    s.exp.copy_from_slice(c.verif_exporter_secret());
    s
}
/// "share no key material": key, base nonce and exporter secret ALL differ
pub fn assert_disjoint(a: &Secrets, b: &Secrets) {
    assert!(a.key != b.key, "AEAD keys coincide");
    assert!(a.nonce != b.nonce, "base nonces coincide");
    assert!(a.exp != b.exp, "exporter secrets coincide");
    assert!(!crate::fasthkdf::intern_hmac_overflowed(), "interning table too small for this harness");
}
pub fn enc_of<MM: KemTrait>(e: u16) -> MM::EncappedKey {
    <MM::EncappedKey as Deserializable>::from_bytes(&e.to_be_bytes()).unwrap()
}

/// the sender's first ciphertext is rejected by the other side, and exports differ
fn assert_cannot_open<A: Aead<AeadImpl = IdealImpl<4>>, KK: Kdf, MM: KemTrait>(s: &mut AeadCtxS<A, KK, MM>, r: &mut AeadCtxR<A, KK, MM>) {
    let mut buf: [u8; 2] = kani::any();
    let tag = s.seal_in_place_detached(&mut buf, &[]).unwrap();
    assert!(matches!(r.open_in_place_detached(&mut buf, &[], &tag), Err(HpkeError::OpenError)));
}

const N: usize = 2;

//@h name=c07_info tier=quick mode=func slots=2 timeout=3000 desc="receiver setups that differ ONLY in the info string (any two different strings: flipped bit, appended zero byte, prefix, empty vs non-empty) share no key material: AEAD key, base nonce and exporter secret all differ" bounds="all skR, enc; info, info' 0..=2 B symbolic with info != info'; Base mode; model suite DHKEM(XorDh,InternKdf)/InternKdf/IdealAead with an injective hash; unwind 70"
#[kani::proof]
#[kani::unwind(70)]
#[kani::stub(zeroize::optimization_barrier, noop_barrier)]
#[kani::stub(hkdf::HkdfExtract::new, crate::fasthkdf::stub_extract_new)]
#[kani::stub(hkdf::HkdfExtract::input_ikm, crate::fasthkdf::stub_input_ikm)]
#[kani::stub(hkdf::HkdfExtract::finalize, crate::fasthkdf::stub_finalize)]
#[kani::stub(hkdf::Hkdf::from_prk, crate::fasthkdf::stub_from_prk)]
#[kani::stub(hkdf::Hkdf::expand_multi_info, crate::fasthkdf::stub_expand_multi_info)]
pub fn c07_info() {
    let sk_r: u16 = kani::any();
    let enc: u16 = kani::any();
    let i1: [u8; N] = kani::any();
    let l1 = any_len(N);
    let i2: [u8; N] = kani::any();
    let l2 = any_len(N);
    kani::assume(!(l1 == l2 && eq_bytes(&i1[..l1], &i2[..l2])));
    let a = setup_receiver::<AI, K, M>(&OpModeR::Base, &XorPrivateKey(sk_r), &enc_of::<M>(enc), &i1[..l1]);
    let b = setup_receiver::<AI, K, M>(&OpModeR::Base, &XorPrivateKey(sk_r), &enc_of::<M>(enc), &i2[..l2]);
    if let (Ok(a), Ok(b)) = (a, b) {
        assert_disjoint(&secrets_r(&a), &secrets_r(&b));
    }
    kani::cover!(l1 == 1 && l2 == 2 && i1[0] == i2[0] && i2[1] == 0, "appended zero byte");
    kani::cover!(l1 == 0 && l2 == 1, "empty vs non-empty");
}

//@h name=c07_psk tier=quick mode=func slots=2 timeout=3000 desc="Psk-mode receiver setups that differ only in the PSK (same identifier) share no key material" bounds="all skR, enc; psk, psk' 1..=2 B symbolic, different; psk_id 1 B; unwind 70"
#[kani::proof]
#[kani::unwind(70)]
#[kani::stub(zeroize::optimization_barrier, noop_barrier)]
#[kani::stub(hkdf::HkdfExtract::new, crate::fasthkdf::stub_extract_new)]
#[kani::stub(hkdf::HkdfExtract::input_ikm, crate::fasthkdf::stub_input_ikm)]
#[kani::stub(hkdf::HkdfExtract::finalize, crate::fasthkdf::stub_finalize)]
#[kani::stub(hkdf::Hkdf::from_prk, crate::fasthkdf::stub_from_prk)]
#[kani::stub(hkdf::Hkdf::expand_multi_info, crate::fasthkdf::stub_expand_multi_info)]
pub fn c07_psk() {
    let sk_r: u16 = kani::any();
    let enc: u16 = kani::any();
    let p1: [u8; N] = kani::any();
    let l1 = any_len(N);
    let p2: [u8; N] = kani::any();
    let l2 = any_len(N);
    kani::assume(l1 >= 1 && l2 >= 1);
    kani::assume(!(l1 == l2 && eq_bytes(&p1[..l1], &p2[..l2])));
    let id: [u8; 1] = kani::any();
    let b1 = PskBundle::new(&p1[..l1], &id).unwrap();
    let b2 = PskBundle::new(&p2[..l2], &id).unwrap();
    let a = setup_receiver::<AI, K, M>(&OpModeR::Psk(b1), &XorPrivateKey(sk_r), &enc_of::<M>(enc), &[]);
    let b = setup_receiver::<AI, K, M>(&OpModeR::Psk(b2), &XorPrivateKey(sk_r), &enc_of::<M>(enc), &[]);
    if let (Ok(a), Ok(b)) = (a, b) {
        assert_disjoint(&secrets_r(&a), &secrets_r(&b));
    }
}

//@h name=c07_psk_id_and_boundary tier=quick mode=func slots=2 timeout=3000 desc="Psk-mode receiver setups that differ in the PSK identifier, including the boundary shift (info||x, psk_id) vs (info, x||psk_id) where the concatenation of the two fields is identical, share no key material" bounds="all skR, enc; (info, psk_id) and (info', psk_id') each 0..=2 / 1..=2 B symbolic with psk_id != psk_id'; psk 1 B; unwind 70"
#[kani::proof]
#[kani::unwind(70)]
#[kani::stub(zeroize::optimization_barrier, noop_barrier)]
#[kani::stub(hkdf::HkdfExtract::new, crate::fasthkdf::stub_extract_new)]
#[kani::stub(hkdf::HkdfExtract::input_ikm, crate::fasthkdf::stub_input_ikm)]
#[kani::stub(hkdf::HkdfExtract::finalize, crate::fasthkdf::stub_finalize)]
#[kani::stub(hkdf::Hkdf::from_prk, crate::fasthkdf::stub_from_prk)]
#[kani::stub(hkdf::Hkdf::expand_multi_info, crate::fasthkdf::stub_expand_multi_info)]
pub fn c07_psk_id_and_boundary() {
    let sk_r: u16 = kani::any();
    let enc: u16 = kani::any();
    let i1: [u8; N] = kani::any();
    let il1 = any_len(N);
    let i2: [u8; N] = kani::any();
    let il2 = any_len(N);
    let d1: [u8; N] = kani::any();
    let dl1 = any_len(N);
    let d2: [u8; N] = kani::any();
    let dl2 = any_len(N);
    kani::assume(dl1 >= 1 && dl2 >= 1);
    kani::assume(!(dl1 == dl2 && eq_bytes(&d1[..dl1], &d2[..dl2])));
    let psk: [u8; 1] = kani::any();
    let b1 = PskBundle::new(&psk, &d1[..dl1]).unwrap();
    let b2 = PskBundle::new(&psk, &d2[..dl2]).unwrap();
    let a = setup_receiver::<AI, K, M>(&OpModeR::Psk(b1), &XorPrivateKey(sk_r), &enc_of::<M>(enc), &i1[..il1]);
    let b = setup_receiver::<AI, K, M>(&OpModeR::Psk(b2), &XorPrivateKey(sk_r), &enc_of::<M>(enc), &i2[..il2]);
    if let (Ok(a), Ok(b)) = (a, b) {
        assert_disjoint(&secrets_r(&a), &secrets_r(&b));
    }
    // info||x , id   vs   info , x||id
    kani::cover!(il1 == 1 && dl1 == 1 && il2 == 0 && dl2 == 2 && d2[0] == i1[0] && d2[1] == d1[0], "boundary shift");
}

//@h name=c07_mode_base_vs_empty_psk tier=quick mode=func slots=2 timeout=3000 desc="mode binding: a Base-mode sender and a Psk-mode receiver holding the EMPTY bundle (identical psk data: empty/absent) share no key material, and the receiver rejects the sender's first ciphertext; likewise the receiver's Base vs Psk(empty) contexts differ" bounds="all RNG outputs, skR; info 0..=1 B; sender through setup_sender (OpModeS), receiver through setup_receiver (OpModeR); unwind 70"
#[kani::proof]
#[kani::unwind(70)]
#[kani::stub(zeroize::optimization_barrier, noop_barrier)]
#[kani::stub(hkdf::HkdfExtract::new, crate::fasthkdf::stub_extract_new)]
#[kani::stub(hkdf::HkdfExtract::input_ikm, crate::fasthkdf::stub_input_ikm)]
#[kani::stub(hkdf::HkdfExtract::finalize, crate::fasthkdf::stub_finalize)]
#[kani::stub(hkdf::Hkdf::from_prk, crate::fasthkdf::stub_from_prk)]
#[kani::stub(hkdf::Hkdf::expand_multi_info, crate::fasthkdf::stub_expand_multi_info)]
pub fn c07_mode_base_vs_empty_psk() {
    let bytes: [u8; RNG_CAP] = kani::any();
    let mut rng = ScriptRng::new(bytes);
    let sk_r: u16 = kani::any();
    let skr = XorPrivateKey(sk_r);
    let pkr = M::sk_to_pk(&skr);
    let info: [u8; 1] = kani::any();
    let il = any_len(1);
    let empty = PskBundle::new(&[], &[]).unwrap();
    if let Ok((enc, mut s)) = setup_sender::<AI, K, M, _>(&OpModeS::Base, &pkr, &info[..il], &mut rng) {
        match setup_receiver::<AI, K, M>(&OpModeR::Psk(empty), &skr, &enc, &info[..il]) {
            Ok(mut r) => {
                assert_disjoint(&secrets_s(&s), &secrets_r(&r));
                assert_cannot_open(&mut s, &mut r);
            }
            Err(_) => assert!(false, "decap must succeed on an honest encapsulation"),
        }
    }
}

//@h name=c07_mode_authpsk_empty_vs_auth tier=thorough mode=func slots=2 timeout=3000 desc="mode binding: AuthPsk sender with the empty bundle vs Auth receiver (identical PSK data, same sender key) share no key material" bounds="all RNG outputs, skR, skS; unwind 70"
#[kani::proof]
#[kani::unwind(70)]
#[kani::stub(zeroize::optimization_barrier, noop_barrier)]
#[kani::stub(hkdf::HkdfExtract::new, crate::fasthkdf::stub_extract_new)]
#[kani::stub(hkdf::HkdfExtract::input_ikm, crate::fasthkdf::stub_input_ikm)]
#[kani::stub(hkdf::HkdfExtract::finalize, crate::fasthkdf::stub_finalize)]
#[kani::stub(hkdf::Hkdf::from_prk, crate::fasthkdf::stub_from_prk)]
#[kani::stub(hkdf::Hkdf::expand_multi_info, crate::fasthkdf::stub_expand_multi_info)]
pub fn c07_mode_authpsk_empty_vs_auth() {
    let bytes: [u8; RNG_CAP] = kani::any();
    let mut rng = ScriptRng::new(bytes);
    let sk_r: u16 = kani::any();
    let sk_s: u16 = kani::any();
    let skr = XorPrivateKey(sk_r);
    let pkr = M::sk_to_pk(&skr);
    let sks = XorPrivateKey(sk_s);
    let pks = M::sk_to_pk(&sks);
    let empty = PskBundle::new(&[], &[]).unwrap();
    if let Ok((enc, mut s)) = setup_sender::<AI, K, M, _>(&OpModeS::AuthPsk((sks, pks.clone()), empty), &pkr, &[], &mut rng) {
        if let Ok(mut r) = setup_receiver::<AI, K, M>(&OpModeR::Auth(pks), &skr, &enc, &[]) {
            assert_disjoint(&secrets_s(&s), &secrets_r(&r));
            assert_cannot_open(&mut s, &mut r);
        }
    }
}

//@h name=c07_recipient_key_and_enc tier=quick mode=func slots=2 timeout=3000 desc="receiver setups that differ only in the recipient private key, or only in the encapsulated key, share no key material (kem_context and DH value both change)" bounds="all (skR, enc) != (skR', enc') with exactly one component different; Base mode; unwind 70"
#[kani::proof]
#[kani::unwind(70)]
#[kani::stub(zeroize::optimization_barrier, noop_barrier)]
#[kani::stub(hkdf::HkdfExtract::new, crate::fasthkdf::stub_extract_new)]
#[kani::stub(hkdf::HkdfExtract::input_ikm, crate::fasthkdf::stub_input_ikm)]
#[kani::stub(hkdf::HkdfExtract::finalize, crate::fasthkdf::stub_finalize)]
#[kani::stub(hkdf::Hkdf::from_prk, crate::fasthkdf::stub_from_prk)]
#[kani::stub(hkdf::Hkdf::expand_multi_info, crate::fasthkdf::stub_expand_multi_info)]
pub fn c07_recipient_key_and_enc() {
    let sk1: u16 = kani::any();
    let e1: u16 = kani::any();
    let sk2: u16 = kani::any();
    let e2: u16 = kani::any();
    kani::assume((sk1 != sk2 && e1 == e2) || (sk1 == sk2 && e1 != e2));
    let a = setup_receiver::<AI, K, M>(&OpModeR::Base, &XorPrivateKey(sk1), &enc_of::<M>(e1), &[]);
    let b = setup_receiver::<AI, K, M>(&OpModeR::Base, &XorPrivateKey(sk2), &enc_of::<M>(e2), &[]);
    if let (Ok(a), Ok(b)) = (a, b) {
        assert_disjoint(&secrets_r(&a), &secrets_r(&b));
    }
    kani::cover!(sk1 != sk2, "different recipient key");
    kani::cover!(e1 != e2, "different encapsulated key");
}

macro_rules! suite_id_harness {
    ($name:ident, $a1:ty, $k1:ty, $m1:ty, $a2:ty, $k2:ty, $m2:ty) => {
        #[kani::proof]
        #[kani::unwind(70)]
        #[kani::stub(zeroize::optimization_barrier, noop_barrier)]
        #[kani::stub(hkdf::HkdfExtract::new, crate::fasthkdf::stub_extract_new)]
        #[kani::stub(hkdf::HkdfExtract::input_ikm, crate::fasthkdf::stub_input_ikm)]
        #[kani::stub(hkdf::HkdfExtract::finalize, crate::fasthkdf::stub_finalize)]
        #[kani::stub(hkdf::Hkdf::from_prk, crate::fasthkdf::stub_from_prk)]
        #[kani::stub(hkdf::Hkdf::expand_multi_info, crate::fasthkdf::stub_expand_multi_info)]
        pub fn $name() {
            let sk_r: u16 = kani::any();
            let enc: u16 = kani::any();
            let info: [u8; 1] = kani::any();
            let il = any_len(1);
            let a = setup_receiver::<$a1, $k1, $m1>(&OpModeR::Base, &XorPrivateKey(sk_r), &enc_of::<$m1>(enc), &info[..il]);
            let b = setup_receiver::<$a2, $k2, $m2>(&OpModeR::Base, &XorPrivateKey(sk_r), &enc_of::<$m2>(enc), &info[..il]);
            if let (Ok(a), Ok(b)) = (a, b) {
                assert_disjoint(&secrets_r(&a), &secrets_r(&b));
            }
        }
    };
}
//@h name=c07_aead_id tier=quick mode=func slots=2 timeout=3000 desc="two suites that differ only in the AEAD identifier (same key, nonce and tag sizes - the AES-256-GCM vs ChaCha20Poly1305 situation) derive disjoint key material from the same inputs" bounds="all skR, enc; info 0..=1 B; unwind 70"
suite_id_harness!(c07_aead_id, IdealAead, K, M, IdealAeadB, K, M);
//@h name=c07_kdf_id tier=thorough mode=func slots=2 timeout=3000 desc="two suites that differ only in the KDF identifier (same hash) derive disjoint key material" bounds="all skR, enc; info 0..=1 B; unwind 70"
suite_id_harness!(c07_kdf_id, IdealAead, InternKdf, M, IdealAead, InternKdfB, M);
//@h name=c07_kem_id tier=thorough mode=func slots=2 timeout=3000 desc="two suites that differ only in the KEM identifier (same group and KDF) derive disjoint key material" bounds="all skR, enc; info 0..=1 B; unwind 70"
suite_id_harness!(c07_kem_id, IdealAead, K, ToyKemInt, IdealAead, K, ToyKemIntB);

// ------------------------------------------------------------------------------------------------
// C08 - sender authentication
// ------------------------------------------------------------------------------------------------

macro_rules! auth_harness {
    ($name:ident, $kind:expr) => {
        #[kani::proof]
        #[kani::unwind(70)]
        #[kani::stub(zeroize::optimization_barrier, noop_barrier)]
        #[kani::stub(hkdf::HkdfExtract::new, crate::fasthkdf::stub_extract_new)]
        #[kani::stub(hkdf::HkdfExtract::input_ikm, crate::fasthkdf::stub_input_ikm)]
        #[kani::stub(hkdf::HkdfExtract::finalize, crate::fasthkdf::stub_finalize)]
        #[kani::stub(hkdf::Hkdf::from_prk, crate::fasthkdf::stub_from_prk)]
        #[kani::stub(hkdf::Hkdf::expand_multi_info, crate::fasthkdf::stub_expand_multi_info)]
        pub fn $name() {
            const KIND: u8 = $kind;
            let bytes: [u8; RNG_CAP] = kani::any();
            let mut rng = ScriptRng::new(bytes);
            let sk_r: u16 = kani::any();
            let sk_s: u16 = kani::any(); // the key the receiver expects
            let sk_x: u16 = kani::any(); // what the impostor holds
            kani::assume(sk_x != sk_s);
            let skr = XorPrivateKey(sk_r);
            let pkr = M::sk_to_pk(&skr);
            let pks = M::sk_to_pk(&XorPrivateKey(sk_s));
            let pkx = M::sk_to_pk(&XorPrivateKey(sk_x));
            let mode_s = match KIND {
                // another identity key pair
                0 => OpModeS::<M>::Auth((XorPrivateKey(sk_x), pkx)),
                // knows only the public half pkS, pairs it with a private key that does not belong to it
                1 => OpModeS::<M>::Auth((XorPrivateKey(sk_x), pks.clone())),
                // not authenticated at all
                _ => OpModeS::<M>::Base,
            };
            if let Ok((enc, mut s)) = setup_sender::<AI, K, M, _>(&mode_s, &pkr, &[], &mut rng) {
                if let Ok(mut r) = setup_receiver::<AI, K, M>(&OpModeR::Auth(pks), &skr, &enc, &[]) {
                    assert_disjoint(&secrets_s(&s), &secrets_r(&r));
                    assert_cannot_open(&mut s, &mut r);
                }
            }
        }
    };
}
//@h name=c08_other_keypair tier=quick mode=func slots=2 prop=C08 timeout=3000 desc="Auth mode: a sender using any OTHER identity key pair than the one the receiver expects shares no key material with the receiver; its first ciphertext is rejected" bounds="all RNG outputs, skR, skS, impostor skX != skS; model suite with injective hash; unwind 70"
auth_harness!(c08_other_keypair, 0);
//@h name=c08_public_half_only tier=quick mode=func slots=2 prop=C08 timeout=3000 desc="Auth mode: a sender that knows only the PUBLIC half pkS and pairs it with a private key that does not belong to it shares no key material with the receiver expecting pkS (possession of skS is what authenticates)" bounds="all RNG outputs, skR, skS, skX != skS; unwind 70"
auth_harness!(c08_public_half_only, 1);
//@h name=c08_unauthenticated_sender tier=quick mode=func slots=2 prop=C08 timeout=3000 desc="a Base-mode sender against an Auth-mode receiver shares no key material" bounds="all RNG outputs, skR, skS; unwind 70"
auth_harness!(c08_unauthenticated_sender, 2);

//@h name=c08_psk_possession tier=quick mode=func slots=2 prop=C08 timeout=3000 desc="AuthPsk mode with the right sender key but a different PSK (same identifier): no shared key material, ciphertext rejected" bounds="all RNG outputs, skR, skS; psk != psk' 1..=2 B; unwind 70"
#[kani::proof]
#[kani::unwind(70)]
#[kani::stub(zeroize::optimization_barrier, noop_barrier)]
#[kani::stub(hkdf::HkdfExtract::new, crate::fasthkdf::stub_extract_new)]
#[kani::stub(hkdf::HkdfExtract::input_ikm, crate::fasthkdf::stub_input_ikm)]
#[kani::stub(hkdf::HkdfExtract::finalize, crate::fasthkdf::stub_finalize)]
#[kani::stub(hkdf::Hkdf::from_prk, crate::fasthkdf::stub_from_prk)]
#[kani::stub(hkdf::Hkdf::expand_multi_info, crate::fasthkdf::stub_expand_multi_info)]
pub fn c08_psk_possession() {
    let bytes: [u8; RNG_CAP] = kani::any();
    let mut rng = ScriptRng::new(bytes);
    let sk_r: u16 = kani::any();
    let sk_s: u16 = kani::any();
    let skr = XorPrivateKey(sk_r);
    let pkr = M::sk_to_pk(&skr);
    let sks = XorPrivateKey(sk_s);
    let pks = M::sk_to_pk(&sks);
    let p1: [u8; N] = kani::any();
    let l1 = any_len(N);
    let p2: [u8; N] = kani::any();
    let l2 = any_len(N);
    kani::assume(l1 >= 1 && l2 >= 1);
    kani::assume(!(l1 == l2 && eq_bytes(&p1[..l1], &p2[..l2])));
    let id: [u8; 1] = kani::any();
    let b1 = PskBundle::new(&p1[..l1], &id).unwrap();
    let b2 = PskBundle::new(&p2[..l2], &id).unwrap();
    if let Ok((enc, mut s)) = setup_sender::<AI, K, M, _>(&OpModeS::AuthPsk((sks, pks.clone()), b1), &pkr, &[], &mut rng) {
        if let Ok(mut r) = setup_receiver::<AI, K, M>(&OpModeR::AuthPsk(pks, b2), &skr, &enc, &[]) {
            assert_disjoint(&secrets_s(&s), &secrets_r(&r));
            assert_cannot_open(&mut s, &mut r);
        }
    }
}

//@h name=c08_honest_sender_accepted tier=quick mode=func slots=2 prop=C08 timeout=3000 desc="positive twin: the holder of skS IS accepted in Auth mode (same key material on both sides, first ciphertext opens) - shows the negative harnesses are not vacuous" bounds="all RNG outputs, skR, skS; unwind 70"
#[kani::proof]
#[kani::unwind(70)]
#[kani::stub(zeroize::optimization_barrier, noop_barrier)]
#[kani::stub(hkdf::HkdfExtract::new, crate::fasthkdf::stub_extract_new)]
#[kani::stub(hkdf::HkdfExtract::input_ikm, crate::fasthkdf::stub_input_ikm)]
#[kani::stub(hkdf::HkdfExtract::finalize, crate::fasthkdf::stub_finalize)]
#[kani::stub(hkdf::Hkdf::from_prk, crate::fasthkdf::stub_from_prk)]
#[kani::stub(hkdf::Hkdf::expand_multi_info, crate::fasthkdf::stub_expand_multi_info)]
pub fn c08_honest_sender_accepted() {
    let bytes: [u8; RNG_CAP] = kani::any();
    let mut rng = ScriptRng::new(bytes);
    let sk_r: u16 = kani::any();
    let sk_s: u16 = kani::any();
    let skr = XorPrivateKey(sk_r);
    let pkr = M::sk_to_pk(&skr);
    let sks = XorPrivateKey(sk_s);
    let pks = M::sk_to_pk(&sks);
    if let Ok((enc, mut s)) = setup_sender::<AI, K, M, _>(&OpModeS::Auth((sks, pks.clone())), &pkr, &[], &mut rng) {
        match setup_receiver::<AI, K, M>(&OpModeR::Auth(pks), &skr, &enc, &[]) {
            Ok(mut r) => {
                let a = secrets_s(&s);
                let b = secrets_r(&r);
                assert!(a.key == b.key && a.nonce == b.nonce && a.exp == b.exp);
                let mut buf: [u8; 2] = kani::any();
                let orig = buf;
                let tag = s.seal_in_place_detached(&mut buf, &[]).unwrap();
                assert!(r.open_in_place_detached(&mut buf, &[], &tag).is_ok());
                assert!(buf == orig);
            }
            Err(_) => assert!(false, "honest sender rejected"),
        }
    }
    kani::cover!(true, "reached");
}
