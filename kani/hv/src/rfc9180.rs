//! An executable transcription of RFC 9180 (sections 4, 4.1, 5.1, 5.2, 5.3, 7.1.3) on top of
//! RFC 5869 HKDF and RFC 2104 HMAC written out by hand.  It shares no code with hpke, hkdf or
//! hmac: the only thing it takes from outside is the raw hash function (`digest::Digest`) and the
//! raw group operations (`RefGroup`).  No allocation: fixed-capacity byte strings.

use digest::{core_api::BlockSizeUser, Digest};
use hpke::verif_model::{ConstHash, EndsHash, InternHash, LinHash, LIN_K, LIN_SEED};

/// fixed-capacity byte string
#[derive(Clone, Copy)]
pub struct Bytes<const N: usize> {
    pub b: [u8; N],
    pub n: usize,
}
impl<const N: usize> Bytes<N> {
    pub fn new() -> Self {
        Bytes { b: [0u8; N], n: 0 }
    }
    pub fn from(s: &[u8]) -> Self {
        let mut x = Self::new();
        x.push(s);
        x
    }
    pub fn push(&mut self, s: &[u8]) {
        let mut i = 0;
        while i < s.len() {
            self.b[self.n] = s[i];
            self.n += 1;
            i += 1;
        }
    }
    pub fn as_slice(&self) -> &[u8] {
        &self.b[..self.n]
    }
}

pub const MAX_NH: usize = 64;
pub const MAX_BLOCK: usize = 128;
pub type Digest64 = Bytes<MAX_NH>;

/// The raw hash function the reference is built on (the only thing it takes from outside).
pub trait RefHash {
    const NH: usize;
    const BLOCK: usize;
    /// H(concat(parts))
    fn hash(parts: &[&[u8]]) -> Digest64;
}

/// any `digest::Digest` (used for the interning hash, and for real SHA-2 outside Kani)
pub fn hash_via_digest<D: Digest>(parts: &[&[u8]]) -> Digest64 {
    let mut d = D::new();
    for p in parts {
        d.update(p);
    }
    let o = d.finalize();
    let mut r = Digest64::new();
    r.push(&o);
    r
}

/// LinHash written out on its u64 state (same function as model/inrepo.rs `LinHash`; that the two
/// agree is itself decided by the un-stubbed differential harnesses, which run the Digest impl
/// through the real hmac/hkdf crates and compare with this one)
impl RefHash for LinHash {
    const NH: usize = 8;
    const BLOCK: usize = 8;
    fn hash(parts: &[&[u8]]) -> Digest64 {
        let mut acc: u64 = LIN_SEED;
        let mut len: u64 = 0;
        let mut p = 0;
        while p < parts.len() {
            let d = parts[p];
            let mut i = 0;
            while i < d.len() {
                acc = acc.rotate_left(5) ^ (d[i] as u64) ^ LIN_K;
                len += 1;
                i += 1;
            }
            p += 1;
        }
        let mut r = Digest64::new();
        r.b[..8].copy_from_slice(&(acc ^ len.rotate_left(29)).to_be_bytes());
        r.n = 8;
        r
    }
}
impl RefHash for InternHash {
    const NH: usize = 12;
    const BLOCK: usize = 12;
    fn hash(parts: &[&[u8]]) -> Digest64 {
        hash_via_digest::<InternHash>(parts)
    }
}
/// the sketch hash for long inputs (see sketch.rs): H(concat(parts))
impl RefHash for EndsHash {
    const NH: usize = 8;
    const BLOCK: usize = 8;
    fn hash(parts: &[&[u8]]) -> Digest64 {
        let mut s = crate::sketch::sketch_new();
        let mut p = 0;
        while p < parts.len() {
            crate::sketch::sketch_absorb(&mut s, parts[p]);
            p += 1;
        }
        let mut r = Digest64::new();
        r.b[..8].copy_from_slice(&crate::sketch::sketch_finish(&s));
        r.n = 8;
        r
    }
}
impl RefHash for ConstHash {
    const NH: usize = 2;
    const BLOCK: usize = 2;
    fn hash(parts: &[&[u8]]) -> Digest64 {
        hash_via_digest::<ConstHash>(parts)
    }
}

/// RFC 2104: HMAC(K, text) = H((K0 ^ opad) || H((K0 ^ ipad) || text)), text = concatenation of `parts`
pub fn hmac<D: RefHash>(key: &[u8], parts: &[&[u8]]) -> Digest64 {
    let bs = D::BLOCK;
    let mut k0 = [0u8; MAX_BLOCK];
    if key.len() > bs {
        let h = D::hash(&[key]);
        k0[..h.n].copy_from_slice(h.as_slice());
    } else {
        k0[..key.len()].copy_from_slice(key);
    }
    let mut ipad = [0u8; MAX_BLOCK];
    let mut opad = [0u8; MAX_BLOCK];
    let mut i = 0;
    while i < bs {
        ipad[i] = k0[i] ^ 0x36;
        opad[i] = k0[i] ^ 0x5c;
        i += 1;
    }
    // inner = H(ipad || text)
    let mut inner_parts: [&[u8]; 10] = [&[]; 10];
    inner_parts[0] = &ipad[..bs];
    let mut k = 0;
    while k < parts.len() {
        inner_parts[1 + k] = parts[k];
        k += 1;
    }
    let ih = D::hash(&inner_parts[..k + 1]);
    D::hash(&[&opad[..bs], ih.as_slice()])
}

/// RFC 5869 2.2: PRK = HMAC-Hash(salt, IKM); an absent salt is HashLen zeros (same K0 after padding)
pub fn hkdf_extract<D: RefHash>(salt: &[u8], ikm_parts: &[&[u8]]) -> Digest64 {
    hmac::<D>(salt, ikm_parts)
}

/// RFC 5869 2.3: T(i) = HMAC-Hash(PRK, T(i-1) | info | i); returns false iff L > 255*HashLen
pub fn hkdf_expand<D: RefHash>(prk: &[u8], info_parts: &[&[u8]], out: &mut [u8]) -> bool {
    let nh = D::NH;
    let l = out.len();
    if l > 255 * nh {
        return false;
    }
    let mut t = Digest64::new();
    let mut done = 0usize;
    let mut counter: u8 = 1;
    while done < l {
        let c = [counter];
        // at most 6 info parts are ever used by HPKE
        let mut parts: [&[u8]; 8] = [&[]; 8];
        let tprev = t;
        parts[0] = tprev.as_slice();
        let mut k = 0;
        while k < info_parts.len() {
            parts[1 + k] = info_parts[k];
            k += 1;
        }
        parts[1 + k] = &c;
        t = hmac::<D>(prk, &parts[..k + 2]);
        let take = if l - done < nh { l - done } else { nh };
        let mut j = 0;
        while j < take {
            out[done + j] = t.b[j];
            j += 1;
        }
        done += take;
        counter = counter.wrapping_add(1);
    }
    true
}

pub const VERSION_LABEL: &[u8] = b"HPKE-v1";

/// RFC 9180 section 4
pub fn labeled_extract<D: RefHash>(salt: &[u8], suite_id: &[u8], label: &[u8], ikm: &[u8]) -> Digest64 {
    hkdf_extract::<D>(salt, &[VERSION_LABEL, suite_id, label, ikm])
}

/// RFC 9180 section 4; returns false iff the length is not representable / too long
pub fn labeled_expand<D: RefHash>(prk: &[u8], suite_id: &[u8], label: &[u8], info: &[u8], out: &mut [u8]) -> bool {
    if out.len() > 0xffff {
        return false;
    }
    let l = out.len() as u16;
    let lb = [(l >> 8) as u8, (l & 0xff) as u8]; // I2OSP(L, 2)
    hkdf_expand::<D>(prk, &[&lb, VERSION_LABEL, suite_id, label, info], out)
}

/// "HPKE" || I2OSP(kem_id, 2) || I2OSP(kdf_id, 2) || I2OSP(aead_id, 2)
pub fn full_suite_id(kem_id: u16, kdf_id: u16, aead_id: u16) -> [u8; 10] {
    [
        b'H', b'P', b'K', b'E',
        (kem_id >> 8) as u8, kem_id as u8,
        (kdf_id >> 8) as u8, kdf_id as u8,
        (aead_id >> 8) as u8, aead_id as u8,
    ]
}
/// "KEM" || I2OSP(kem_id, 2)
pub fn kem_suite_id(kem_id: u16) -> [u8; 5] {
    [b'K', b'E', b'M', (kem_id >> 8) as u8, kem_id as u8]
}

pub const MODE_BASE: u8 = 0;
pub const MODE_PSK: u8 = 1;
pub const MODE_AUTH: u8 = 2;
pub const MODE_AUTH_PSK: u8 = 3;

pub struct Schedule {
    pub key: Bytes<32>,
    pub base_nonce: Bytes<12>,
    pub exporter_secret: Digest64,
}

/// RFC 9180 5.1 KeySchedule (inputs assumed to have passed VerifyPSKInputs)
pub fn key_schedule<D: RefHash>(
    mode: u8,
    shared_secret: &[u8],
    info: &[u8],
    psk: &[u8],
    psk_id: &[u8],
    suite_id: &[u8; 10],
    nk: usize,
    nn: usize,
) -> Schedule {
    let nh = D::NH;
    let psk_id_hash = labeled_extract::<D>(&[], suite_id, b"psk_id_hash", psk_id);
    let info_hash = labeled_extract::<D>(&[], suite_id, b"info_hash", info);
    let mut ksc = Bytes::<{ 1 + 2 * MAX_NH }>::new();
    ksc.push(&[mode]);
    ksc.push(psk_id_hash.as_slice());
    ksc.push(info_hash.as_slice());
    let secret = labeled_extract::<D>(shared_secret, suite_id, b"secret", psk);
    let mut s = Schedule { key: Bytes::new(), base_nonce: Bytes::new(), exporter_secret: Digest64::new() };
    s.key.n = nk;
    labeled_expand::<D>(secret.as_slice(), suite_id, b"key", ksc.as_slice(), &mut s.key.b[..nk]);
    s.base_nonce.n = nn;
    labeled_expand::<D>(secret.as_slice(), suite_id, b"base_nonce", ksc.as_slice(), &mut s.base_nonce.b[..nn]);
    s.exporter_secret.n = nh;
    labeled_expand::<D>(secret.as_slice(), suite_id, b"exp", ksc.as_slice(), &mut s.exporter_secret.b[..nh]);
    s
}

/// RFC 9180 5.2 ComputeNonce: xor(base_nonce, I2OSP(seq, Nn))
pub fn compute_nonce<const NN: usize>(base_nonce: &[u8; NN], seq: u64) -> [u8; NN] {
    let mut seq_bytes = [0u8; NN];
    let mut i = 0;
    while i < 8 {
        seq_bytes[NN - 1 - i] = (seq >> (8 * i)) as u8;
        i += 1;
    }
    let mut out = [0u8; NN];
    let mut j = 0;
    while j < NN {
        out[j] = base_nonce[j] ^ seq_bytes[j];
        j += 1;
    }
    out
}

/// RFC 9180 5.3 Context.Export
pub fn export<D: RefHash>(exporter_secret: &[u8], suite_id: &[u8; 10], exporter_context: &[u8], out: &mut [u8]) -> bool {
    labeled_expand::<D>(exporter_secret, suite_id, b"sec", exporter_context, out)
}

// ---------------------------------------------------------------------------------------------
// DHKEM (RFC 9180 4.1)
// ---------------------------------------------------------------------------------------------

pub const MAX_NPK: usize = 133;
pub type PkBytes = Bytes<MAX_NPK>;

pub trait RefGroup {
    type Sk: Copy;
    type Pk: Copy;
    const NSECRET: usize;
    /// pk(sk)
    fn pk(sk: Self::Sk) -> Self::Pk;
    /// DH(sk, pk) serialised to Ndh bytes, None if the group rejects the result
    fn dh(sk: Self::Sk, pk: Self::Pk) -> Option<PkBytes>;
    /// SerializePublicKey
    fn ser(pk: Self::Pk) -> PkBytes;
}

fn extract_and_expand<D: RefHash>(dh: &[u8], kem_context: &[u8], suite: &[u8; 5], nsecret: usize) -> Digest64 {
    let eae_prk = labeled_extract::<D>(&[], suite, b"eae_prk", dh);
    let mut ss = Digest64::new();
    ss.n = nsecret;
    labeled_expand::<D>(eae_prk.as_slice(), suite, b"shared_secret", kem_context, &mut ss.b[..nsecret]);
    ss
}

/// Encap / AuthEncap with a given ephemeral key: returns (shared_secret, enc)
pub fn encap<G: RefGroup, D: RefHash>(
    kem_id: u16,
    pk_r: G::Pk,
    sk_e: G::Sk,
    auth: Option<G::Sk>,
) -> Option<(Digest64, PkBytes)> {
    let suite = kem_suite_id(kem_id);
    let mut dh = Bytes::<{ 2 * MAX_NPK }>::new();
    dh.push(G::dh(sk_e, pk_r)?.as_slice());
    let enc = G::ser(G::pk(sk_e));
    let mut kem_context = Bytes::<{ 3 * MAX_NPK }>::new();
    kem_context.push(enc.as_slice());
    kem_context.push(G::ser(pk_r).as_slice());
    if let Some(sk_s) = auth {
        dh.push(G::dh(sk_s, pk_r)?.as_slice());
        kem_context.push(G::ser(G::pk(sk_s)).as_slice());
    }
    Some((extract_and_expand::<D>(dh.as_slice(), kem_context.as_slice(), &suite, G::NSECRET), enc))
}

/// Decap / AuthDecap
pub fn decap<G: RefGroup, D: RefHash>(kem_id: u16, pk_e: G::Pk, sk_r: G::Sk, auth: Option<G::Pk>) -> Option<Digest64> {
    let suite = kem_suite_id(kem_id);
    let mut dh = Bytes::<{ 2 * MAX_NPK }>::new();
    dh.push(G::dh(sk_r, pk_e)?.as_slice());
    let mut kem_context = Bytes::<{ 3 * MAX_NPK }>::new();
    kem_context.push(G::ser(pk_e).as_slice());
    kem_context.push(G::ser(G::pk(sk_r)).as_slice());
    if let Some(pk_s) = auth {
        dh.push(G::dh(sk_r, pk_s)?.as_slice());
        kem_context.push(G::ser(pk_s).as_slice());
    }
    Some(extract_and_expand::<D>(dh.as_slice(), kem_context.as_slice(), &suite, G::NSECRET))
}

/// RFC 9180 7.1.3 DeriveKeyPair for X25519/X448-style groups: the Nsk private key bytes
pub fn derive_sk_simple<D: RefHash>(kem_id: u16, ikm: &[u8], out: &mut [u8]) {
    let suite = kem_suite_id(kem_id);
    let dkp_prk = labeled_extract::<D>(&[], &suite, b"dkp_prk", ikm);
    labeled_expand::<D>(dkp_prk.as_slice(), &suite, b"sk", &[], out);
}

/// big-endian comparison a < b of equal-length strings
pub fn be_less(a: &[u8], b: &[u8]) -> bool {
    let mut lt = false;
    let mut decided = false;
    let mut i = 0;
    while i < a.len() {
        if !decided && a[i] != b[i] {
            lt = a[i] < b[i];
            decided = true;
        }
        i += 1;
    }
    lt
}
pub fn is_zero(a: &[u8]) -> bool {
    let mut z = true;
    let mut i = 0;
    while i < a.len() {
        if a[i] != 0 {
            z = false;
        }
        i += 1;
    }
    z
}

/// RFC 9180 7.1.3 DeriveKeyPair for the NIST curves: candidate loop with counter and bitmask.
/// Returns the number of the accepted candidate, or None after 256 failures.
pub fn derive_sk_nist<D: RefHash>(kem_id: u16, ikm: &[u8], bitmask: u8, order: &[u8], out: &mut [u8], max_tries: u16) -> Option<u8> {
    let suite = kem_suite_id(kem_id);
    let dkp_prk = labeled_extract::<D>(&[], &suite, b"dkp_prk", ikm);
    let mut counter: u16 = 0;
    while counter < max_tries {
        if counter > 255 {
            return None;
        }
        labeled_expand::<D>(dkp_prk.as_slice(), &suite, b"candidate", &[counter as u8], out);
        out[0] &= bitmask;
        if !is_zero(out) && be_less(out, order) {
            return Some(counter as u8);
        }
        counter += 1;
    }
    None
}

pub const P256_ORDER: [u8; 32] = [
    0xff, 0xff, 0xff, 0xff, 0x00, 0x00, 0x00, 0x00, 0xff, 0xff, 0xff, 0xff, 0xff, 0xff, 0xff, 0xff, 0xbc, 0xe6, 0xfa, 0xad, 0xa7, 0x17,
    0x9e, 0x84, 0xf3, 0xb9, 0xca, 0xc2, 0xfc, 0x63, 0x25, 0x51,
];
pub const P384_ORDER: [u8; 48] = [
    0xff, 0xff, 0xff, 0xff, 0xff, 0xff, 0xff, 0xff, 0xff, 0xff, 0xff, 0xff, 0xff, 0xff, 0xff, 0xff, 0xff, 0xff, 0xff, 0xff, 0xff, 0xff,
    0xff, 0xff, 0xc7, 0x63, 0x4d, 0x81, 0xf4, 0x37, 0x2d, 0xdf, 0x58, 0x1a, 0x0d, 0xb2, 0x48, 0xb0, 0xa7, 0x7a, 0xec, 0xec, 0x19, 0x6a,
    0xcc, 0xc5, 0x29, 0x73,
];
pub const P521_ORDER: [u8; 66] = [
    0x01, 0xff, 0xff, 0xff, 0xff, 0xff, 0xff, 0xff, 0xff, 0xff, 0xff, 0xff, 0xff, 0xff, 0xff, 0xff, 0xff, 0xff, 0xff, 0xff, 0xff, 0xff,
    0xff, 0xff, 0xff, 0xff, 0xff, 0xff, 0xff, 0xff, 0xff, 0xff, 0xff, 0xfa, 0x51, 0x86, 0x87, 0x83, 0xbf, 0x2f, 0x96, 0x6b, 0x7f, 0xcc,
    0x01, 0x48, 0xf7, 0x09, 0xa5, 0xd0, 0x3b, 0xb5, 0xc9, 0xb8, 0x89, 0x9c, 0x47, 0xae, 0xbb, 0x6f, 0xb7, 0x1e, 0x91, 0x38, 0x64, 0x09,
];

// ---------------------------------------------------------------------------------------------
// The toy group of the model KEMs (mirrors model/inrepo.rs `XorDh`; raw group operations only)
// ---------------------------------------------------------------------------------------------
pub struct XorGroup;
pub const XOR_G: u16 = 0x9e37;
impl RefGroup for XorGroup {
    type Sk = u16;
    type Pk = u16;
    const NSECRET: usize = 0; // overridden per KDF by the caller through XorGroupN
    fn pk(sk: u16) -> u16 {
        sk ^ XOR_G
    }
    fn dh(sk: u16, pk: u16) -> Option<PkBytes> {
        let r = sk ^ pk ^ XOR_G;
        if r == 0 {
            None
        } else {
            Some(PkBytes::from(&r.to_be_bytes()))
        }
    }
    fn ser(pk: u16) -> PkBytes {
        PkBytes::from(&pk.to_be_bytes())
    }
}
/// the toy group with the Nsecret of the KDF it is paired with (Nsecret = Nh in every DHKEM)
pub struct XorGroupN<const NSECRET: usize>;
impl<const N: usize> RefGroup for XorGroupN<N> {
    type Sk = u16;
    type Pk = u16;
    const NSECRET: usize = N;
    fn pk(sk: u16) -> u16 {
        XorGroup::pk(sk)
    }
    fn dh(sk: u16, pk: u16) -> Option<PkBytes> {
        XorGroup::dh(sk, pk)
    }
    fn ser(pk: u16) -> PkBytes {
        XorGroup::ser(pk)
    }
}
