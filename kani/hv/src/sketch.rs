//! The "sketch" hash behind `EndsHash` (model/inrepo.rs): a deterministic function of the
//! concatenated message - total length, the first 48 bytes, the last byte, and the bytes at a few
//! fixed far positions (around 32 KiB and 64 KiB) - computed incrementally in O(1) symbolic-execution
//! steps per `absorb`, whatever the (symbolic) length of the slice.  Chunking-insensitive by
//! construction, so it is sound for equalities between two computations of the same message.

#[derive(Clone, Copy)]
#[repr(C)]
pub struct Sketch {
    pub len: u64,
    pub near: u64,
    pub far: u64,
    pub last: u8,
}
pub const SK_K: u64 = 0xa409_3822_299f_31d0;
pub const NEAR: u64 = 48;
/// absolute positions probed beyond the first 48 bytes: where byte 32767/32768 and
/// 65534/65535/65536 of the data part of a labeled extract land (data starts at offset 31, 34 or 36)
pub const FAR: [u64; 6] = [
    32768 + 34,
    65535 + 31, 65535 + 34, 65536 + 34, 65535 + 36,
    65999 + 34,
];

pub fn sketch_new() -> Sketch {
    Sketch { len: 0, near: 0x0123_4567_89ab_cdef, far: 0, last: 0 }
}

pub fn sketch_absorb(s: &mut Sketch, data: &[u8]) {
    let n = data.len() as u64;
    if n == 0 {
        return;
    }
    // the first 48 bytes of the whole message, in order
    let mut p = 0u64;
    while p < NEAR {
        if p >= s.len && p - s.len < n {
            s.near = s.near.rotate_left(5) ^ (data[(p - s.len) as usize] as u64) ^ SK_K;
        }
        p += 1;
    }
    let mut k = 0usize;
    while k < FAR.len() {
        let f = FAR[k];
        if f >= s.len && f - s.len < n {
            s.far ^= ((data[(f - s.len) as usize] as u64) | 0x100).rotate_left((5 * k as u32) % 64);
        }
        k += 1;
    }
    s.last = data[(n - 1) as usize];
    s.len += n;
}

pub fn sketch_finish(s: &Sketch) -> [u8; 8] {
    (s.near ^ s.far.rotate_left(17) ^ s.len.rotate_left(29) ^ ((s.last as u64) << 48) ^ SK_K).to_be_bytes()
}
