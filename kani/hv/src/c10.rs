//! C10 - X25519 all-zero DH aborts setup (DESIGN.md section 2, C10).  The dalek ladder is out of
//! reach symbolically, so `x25519_dalek::StaticSecret::diffie_hellman` is stubbed to return a
//! harness-chosen 32-byte value; everything hpke does with that value is the real code.
#![allow(static_mut_refs)]
use crate::util::*;
use hpke::kem::{Kem as KemTrait, X25519HkdfSha256};
use hpke::verif_hooks::{x25519_encap_with_eph, DhKeyExchange, X25519};
use hpke::{Deserializable, HpkeError, Serializable};

type Kem = X25519HkdfSha256;
type Pk = <Kem as KemTrait>::PublicKey;
type Sk = <Kem as KemTrait>::PrivateKey;
type Enc = <Kem as KemTrait>::EncappedKey;

/// queue of DH results handed out by the stub
pub static mut DH_OUT: [[u8; 32]; 2] = [[0u8; 32]; 2];
pub static mut DH_CALLS: usize = 0;

pub fn stub_dh(_sk: &x25519_dalek::StaticSecret, _pk: &x25519_dalek::PublicKey) -> x25519_dalek::SharedSecret {
    unsafe {
        let i = if DH_CALLS < 2 { DH_CALLS } else { 1 };
        DH_CALLS += 1;
        core::mem::transmute::<[u8; 32], x25519_dalek::SharedSecret>(DH_OUT[i])
    }
}

/// `PublicKey::from(&StaticSecret)` is the base-point ladder (19 min even on a concrete scalar); the
/// value of pk(skR) is irrelevant on the failure paths examined here
pub fn stub_pk_from<'a>(_sk: &'a x25519_dalek::StaticSecret) -> x25519_dalek::PublicKey
where
    'a: 'a, // makes the lifetime early-bound, like the impl's
{
    x25519_dalek::PublicKey::from([9u8; 32])
}

fn is_zero32(b: &[u8; 32]) -> bool {
    let mut z = true;
    let mut i = 0;
    while i < 32 {
        if b[i] != 0 {
            z = false;
        }
        i += 1;
    }
    z
}

//@h name=c10_l1_dh_zero_iff_err tier=quick mode=func timeout=600 replay=log desc="real X25519::dh: for every private key, every 32-byte public key encoding and every value r the underlying scalar multiplication may return, the result is Err exactly when r is the all-zero string; a non-zero r is passed through unchanged (so keys that are not of small order are never rejected, and every encoding whose DH output is zero is)" bounds="sk, pk (all 2^256 encodings, bit 255 set or clear), r all symbolic; dalek diffie_hellman stubbed by an arbitrary-value oracle; unwind 34"
#[kani::proof]
#[kani::unwind(34)]
#[kani::stub(zeroize::optimization_barrier, noop_barrier)]
#[kani::stub(x25519_dalek::StaticSecret::diffie_hellman, stub_dh)]
pub fn c10_l1_dh_zero_iff_err() {
    let skb: [u8; 32] = kani::any();
    let pkb: [u8; 32] = kani::any();
    let r: [u8; 32] = kani::any();
    unsafe {
        DH_OUT[0] = r;
        DH_CALLS = 0;
    }
    let sk = Sk::from_bytes(&skb).unwrap();
    let pk = Pk::from_bytes(&pkb).unwrap();
    let res = <X25519 as DhKeyExchange>::dh(&sk, &pk);
    assert!(unsafe { DH_CALLS } == 1);
    match res {
        Ok(k) => {
            assert!(!is_zero32(&r), "all-zero DH result accepted");
            assert!(eq_bytes(&k.to_bytes(), &r));
        }
        Err(_) => assert!(is_zero32(&r), "non-zero DH result rejected"),
    }
    kani::cover!(is_zero32(&r) && pkb[31] & 0x80 != 0, "zero result for an encoding with bit 255 set");
    kani::cover!(!is_zero32(&r), "non-zero result");
}

macro_rules! decap_zero_harness {
    ($name:ident, $auth:expr, $which:expr) => {
        #[kani::proof]
        #[kani::unwind(34)]
        #[kani::stub(zeroize::optimization_barrier, noop_barrier)]
        #[kani::stub(x25519_dalek::StaticSecret::diffie_hellman, stub_dh)]
        #[kani::stub(<x25519_dalek::PublicKey as core::convert::From<&x25519_dalek::StaticSecret>>::from, stub_pk_from)]
        pub fn $name() {
            let skb: [u8; 32] = kani::any();
            let encb: [u8; 32] = kani::any();
            let pksb: [u8; 32] = kani::any();
            let other: [u8; 32] = kani::any();
            kani::assume(!is_zero32(&other));
            unsafe {
                DH_OUT = [other, other];
                DH_OUT[$which] = [0u8; 32];
                DH_CALLS = 0;
            }
            let sk = Sk::from_bytes(&skb).unwrap();
            let enc = Enc::from_bytes(&encb).unwrap();
            let pks = Pk::from_bytes(&pksb).unwrap();
            let id = if $auth { Some(&pks) } else { None };
            match Kem::decap(&sk, id, &enc) {
                Err(e) => assert!(e == HpkeError::DecapError),
                Ok(_) => assert!(false, "a shared secret was produced from an all-zero DH result"),
            }
        }
    };
}
//@h name=c10_l2_decap_zero_first tier=quick mode=func timeout=900 replay=log desc="real DHKEM(X25519) decap, unauthenticated: when DH(skR, enc) is all-zero the result is DecapError and no shared secret is produced, for every private key and encapsulated key encoding" bounds="skR, enc symbolic; dalek DH stubbed (returns zero); no hash is reached on this path"
decap_zero_harness!(c10_l2_decap_zero_first, false, 0);
//@h name=c10_l2_decap_auth_zero_first tier=quick mode=func timeout=900 replay=log desc="authenticated decap: first DH (with the encapsulated key) all-zero => DecapError" bounds="skR, enc, pkS symbolic; second DH result arbitrary non-zero"
decap_zero_harness!(c10_l2_decap_auth_zero_first, true, 0);
//@h name=c10_l2_decap_auth_zero_second tier=quick mode=func timeout=900 replay=log desc="authenticated decap: second DH (with the sender identity key) all-zero => DecapError (not EncapError), no shared secret" bounds="skR, enc, pkS symbolic; first DH result arbitrary non-zero"
decap_zero_harness!(c10_l2_decap_auth_zero_second, true, 1);

//@h name=c10_l2_encap_zero_first tier=quick mode=func timeout=900 replay=log desc="real DHKEM(X25519) encap_with_eph (plain and auth): DH(skE, pkR) all-zero => EncapError before anything else is computed" bounds="skE, pkR, skS symbolic; auth symbolic; dalek DH stubbed"
#[kani::proof]
#[kani::unwind(34)]
#[kani::stub(zeroize::optimization_barrier, noop_barrier)]
#[kani::stub(x25519_dalek::StaticSecret::diffie_hellman, stub_dh)]
pub fn c10_l2_encap_zero_first() {
    let skeb: [u8; 32] = kani::any();
    let pkrb: [u8; 32] = kani::any();
    let sksb: [u8; 32] = kani::any();
    let pksb: [u8; 32] = kani::any();
    unsafe {
        DH_OUT = [[0u8; 32], kani::any()];
        DH_CALLS = 0;
    }
    let ske = Sk::from_bytes(&skeb).unwrap();
    let pkr = Pk::from_bytes(&pkrb).unwrap();
    let sks = Sk::from_bytes(&sksb).unwrap();
    let pks = Pk::from_bytes(&pksb).unwrap();
    let auth: bool = kani::any();
    let id = if auth { Some((&sks, &pks)) } else { None };
    match x25519_encap_with_eph(&pkr, id, ske) {
        Err(e) => assert!(e == HpkeError::EncapError),
        Ok(_) => assert!(false, "a shared secret was produced from an all-zero DH result"),
    }
}

//@h name=c10_l2_setup_receiver_zero tier=quick mode=func timeout=900 replay=log desc="setup_receiver and single_shot_open_in_place_detached on the real X25519 suite propagate exactly DecapError and produce no context when the DH result is all-zero (Base mode)" bounds="skR, enc, info 0..=2 B symbolic; dalek DH stubbed"
#[kani::proof]
#[kani::unwind(34)]
#[kani::stub(zeroize::optimization_barrier, noop_barrier)]
#[kani::stub(x25519_dalek::StaticSecret::diffie_hellman, stub_dh)]
pub fn c10_l2_setup_receiver_zero() {
    use hpke::aead::{AeadTag, ChaCha20Poly1305};
    use hpke::kdf::HkdfSha256;
    let skb: [u8; 32] = kani::any();
    let encb: [u8; 32] = kani::any();
    unsafe {
        DH_OUT = [[0u8; 32], [0u8; 32]];
        DH_CALLS = 0;
    }
    let sk = Sk::from_bytes(&skb).unwrap();
    let enc = Enc::from_bytes(&encb).unwrap();
    let info: [u8; 2] = kani::any();
    let il = any_len(2);
    match hpke::setup_receiver::<ChaCha20Poly1305, HkdfSha256, Kem>(&hpke::OpModeR::Base, &sk, &enc, &info[..il]) {
        Err(e) => assert!(e == HpkeError::DecapError),
        Ok(_) => assert!(false, "context produced from an all-zero DH result"),
    }
    let tag = AeadTag::<ChaCha20Poly1305>::from_bytes(&[0u8; 16]).unwrap();
    let mut buf = [0u8; 2];
    let r = hpke::single_shot_open_in_place_detached::<ChaCha20Poly1305, HkdfSha256, Kem>(&hpke::OpModeR::Base, &sk, &enc, &info[..il], &mut buf, &[], &tag);
    assert!(r == Err(HpkeError::DecapError));
}

// ---- L4 (thorough): CONCRETE runs through the real dalek ladder --------------------------------
// Zero symbolic variables: regression anchors that tie "small-order encoding" to "all-zero DH output"
// on the real curve for one scalar each.  That this holds for EVERY scalar is Curve25519 mathematics
// and is not decided.
macro_rules! real_ladder_anchor {
    ($name:ident, $u:expr, $expect_err:expr) => {
        #[kani::proof]
        #[kani::unwind(260)]
        #[kani::stub(zeroize::optimization_barrier, noop_barrier)]
        pub fn $name() {
            let mut skb = [0x42u8; 32];
            skb[0] = 0x11;
            let sk = Sk::from_bytes(&skb).unwrap();
            let u: [u8; 32] = $u;
            let pk = Pk::from_bytes(&u).unwrap();
            let res = <X25519 as DhKeyExchange>::dh(&sk, &pk);
            assert!(res.is_err() == $expect_err);
        }
    };
}
const U_ZERO: [u8; 32] = [0u8; 32];
const U_ONE: [u8; 32] = {
    let mut a = [0u8; 32];
    a[0] = 1;
    a
};
const U_NINE: [u8; 32] = {
    let mut a = [0u8; 32];
    a[0] = 9;
    a
};
//@h name=c10_l4_real_ladder_u0 tier=thorough mode=func slots=2 timeout=7200 desc="CONCRETE anchor through the real curve25519-dalek ladder (no stub): DH with the small-order point u = 0 is rejected" bounds="one concrete scalar, one concrete point"
real_ladder_anchor!(c10_l4_real_ladder_u0, U_ZERO, true);
//@h name=c10_l4_real_ladder_u1 tier=thorough mode=func slots=2 timeout=7200 desc="CONCRETE anchor through the real ladder: DH with the small-order point u = 1 is rejected" bounds="one concrete scalar, one concrete point"
real_ladder_anchor!(c10_l4_real_ladder_u1, U_ONE, true);
//@h name=c10_l4_real_ladder_u9 tier=thorough mode=func slots=2 timeout=7200 desc="CONCRETE anchor through the real ladder: DH with the base point u = 9 (not small order) is NOT rejected" bounds="one concrete scalar, one concrete point"
real_ladder_anchor!(c10_l4_real_ladder_u9, U_NINE, false);
