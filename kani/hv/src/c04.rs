//! C04 - nonce sequencing (DESIGN.md section 2, C04)
use crate::models::*;
use crate::util::*;
use hpke::aead::{AesGcm128, AesGcm256, ChaCha20Poly1305};
use hpke::verif_hooks::*;
use hpke::HpkeError;

type A = SpyAead16;
type K = hpke::verif_model::LinKdf;
type M = hpke::kem::ToyKemLin;

const PT: usize = 5;
const PTA: usize = 3;
const AD: usize = 3;

fn expected_nonce(base: &[u8; 12], seq: u64) -> [u8; 12] {
    // RFC 9180 5.2: xor(base_nonce, I2OSP(seq, Nn))
    let mut n = *base;
    let s = seq.to_be_bytes();
    let mut i = 0;
    while i < 8 {
        n[4 + i] ^= s[i];
        i += 1;
    }
    n
}

//@h name=c04_l1_seal_in_place_step tier=quick mode=func also=C02 timeout=600 desc="one seal_in_place_detached step from an arbitrary context state with an arbitrary AEAD: nonce handed to the AEAD = base_nonce XOR BE64(seq) in the last 8 bytes, key/aad/plaintext passed unchanged, counter +1 or latch at 2^64-1, exhausted context refuses without touching buffer/AEAD/state" bounds="key 128 bit, base nonce 96 bit, seq 64 bit, overflowed, tag, AEAD verdict all symbolic; plaintext 0..=5 B, aad 0..=3 B; unwind 20"
/// L1/L3: one step of seal_in_place_detached from an arbitrary state, arbitrary AEAD behaviour
#[kani::proof]
#[kani::unwind(20)]
#[kani::stub(zeroize::optimization_barrier, noop_barrier)]
pub fn c04_l1_seal_in_place_step() {
    let key: [u8; 16] = kani::any();
    let base: [u8; 12] = kani::any();
    let exp: [u8; 8] = kani::any();
    let seq: u64 = kani::any();
    let ovf: bool = kani::any();
    let mut ctx = ctx_s_from_parts::<A, K, M>(&key, &base, &exp, seq, ovf);

    let len = any_len(PT);
    let alen = any_len(AD);
    let mut buf: [u8; PT] = kani::any();
    let orig = buf;
    let aad: [u8; AD] = kani::any();
    let tag: [u8; 16] = kani::any();
    spy().next_tag = tag;
    let enc_ok: bool = kani::any();
    spy().enc_ok = enc_ok;
    let encs0 = spy().encs;

    let res = ctx.seal_in_place_detached(&mut buf[..len], &aad[..alen]);
    let (seq2, ovf2) = ctx.verif_seq_state();

    if ovf {
        // refuses, AEAD not called, buffer bit-identical, state unchanged (=> refuses forever)
        assert!(matches!(res, Err(HpkeError::MessageLimitReached)));
        assert!(spy().encs == encs0);
        assert!(buf == orig);
        assert!(seq2 == seq && ovf2);
    } else {
        assert!(spy().encs == encs0 + 1);
        let c = &spy().last;
        assert!(c.nonce == expected_nonce(&base, seq));
        assert!(c.key_len == 16 && c.key[..16] == key[..]);
        assert!(c.aad_len == alen && eq_bytes(&c.aad[..alen], &aad[..alen]));
        assert!(c.buf_len == len && eq_bytes(&c.buf[..len], &orig[..len]));
        assert!(!spy().overflow);
        if enc_ok {
            match res {
                Ok(t) => {
                    use hpke::Serializable;
                    let tb = t.to_bytes();
                    assert!(tb[..] == tag[..]);
                }
                Err(_) => assert!(false, "seal must succeed when the AEAD succeeds"),
            }
            let mut i = 0;
            while i < PT {
                if i < len {
                    assert!(buf[i] == orig[i] ^ 0x5c);
                } else {
                    assert!(buf[i] == orig[i]);
                }
                i += 1;
            }
            if seq == u64::MAX {
                assert!(ovf2 && seq2 == seq);
            } else {
                assert!(!ovf2 && seq2 == seq + 1);
            }
        } else {
            assert!(matches!(res, Err(HpkeError::SealError)));
        }
    }
    kani::cover!(!ovf && seq == u64::MAX && enc_ok, "last sequence number is usable");
    kani::cover!(ovf, "exhausted context");
    kani::cover!(!ovf && seq == 0x00ff_ffff_ffff_ffff && len == PT, "carry boundary");
}

/// L1 for the allocating seal(): ciphertext = in-place ciphertext || tag, same state machine.
/// The plaintext length is concrete per harness (a symbolic-size `vec!` allocation costs CBMC
/// >10 GB); hpke never branches on it.
macro_rules! seal_alloc_harness {
    ($name:ident, $len:expr) => {
        #[kani::proof]
        #[kani::unwind(20)]
        #[kani::stub(zeroize::optimization_barrier, noop_barrier)]
        pub fn $name() {
            const LEN: usize = $len;
            let key: [u8; 16] = kani::any();
            let base: [u8; 12] = kani::any();
            let exp: [u8; 8] = kani::any();
            let seq: u64 = kani::any();
            let ovf: bool = kani::any();
            let mut ctx = ctx_s_from_parts::<A, K, M>(&key, &base, &exp, seq, ovf);
            let pt: [u8; LEN] = kani::any();
            let aad: [u8; AD] = kani::any();
            let alen = any_len(AD);
            let tag: [u8; 16] = kani::any();
            spy().next_tag = tag;
            let enc_ok: bool = kani::any();
            spy().enc_ok = enc_ok;
            let encs0 = spy().encs;
            let res = ctx.seal(&pt, &aad[..alen]);
            let (seq2, ovf2) = ctx.verif_seq_state();
            if ovf {
                assert!(matches!(res, Err(HpkeError::MessageLimitReached)));
                assert!(spy().encs == encs0);
                assert!(seq2 == seq && ovf2);
            } else {
                assert!(spy().encs == encs0 + 1);
                let c = &spy().last;
                assert!(c.nonce == expected_nonce(&base, seq));
                assert!(c.aad_len == alen && eq_bytes(&c.aad[..alen], &aad[..alen]));
                assert!(c.buf_len == LEN && eq_bytes(&c.buf[..LEN], &pt));
                if enc_ok {
                    match res {
                        Ok(ct) => {
                            assert!(ct.len() == LEN + 16);
                            let mut i = 0;
                            while i < LEN {
                                assert!(ct[i] == pt[i] ^ 0x5c);
                                i += 1;
                            }
                            assert!(eq_bytes(&ct[LEN..], &tag));
                        }
                        Err(_) => assert!(false, "seal must succeed when the AEAD succeeds"),
                    }
                    if seq == u64::MAX {
                        assert!(ovf2 && seq2 == seq);
                    } else {
                        assert!(!ovf2 && seq2 == seq + 1);
                    }
                } else {
                    assert!(matches!(res, Err(HpkeError::SealError)));
                }
            }
            kani::cover!(!ovf && seq == u64::MAX && enc_ok, "last sequence number is usable");
        }
    };
}
//@h name=c04_l1_seal_alloc_len0 tier=quick mode=func also=C14,C06 timeout=900 desc="one step of the allocating seal() on an empty plaintext from an arbitrary state: output = tag only (16 B), same nonce formula and state machine as the in-place form, exhausted context refuses without calling the AEAD" bounds="state, tag, AEAD verdict symbolic; plaintext length 0 (concrete), aad 0..=3 B; unwind 20"
seal_alloc_harness!(c04_l1_seal_alloc_len0, 0);
//@h name=c04_l1_seal_alloc_len3 tier=quick mode=func also=C14,C06 timeout=900 desc="same for a 3-byte plaintext: output = in-place ciphertext || tag, length +16" bounds="state, tag, AEAD verdict symbolic; plaintext length 3 (concrete), contents symbolic; aad 0..=3 B; unwind 20"
seal_alloc_harness!(c04_l1_seal_alloc_len3, 3);
//@h name=c04_l1_seal_alloc_len17 tier=thorough mode=func timeout=1800 desc="same for a 17-byte plaintext (one byte over the AEAD block)" bounds="plaintext length 17 (concrete), contents symbolic; unwind 20"
seal_alloc_harness!(c04_l1_seal_alloc_len17, 17);

/// L2: ComputeNonce is the RFC formula and is injective in seq, on the three real AEAD types
macro_rules! mix_harness {
    ($name:ident, $aead:ty) => {
        #[kani::proof]
        #[kani::unwind(14)]
        #[kani::stub(zeroize::optimization_barrier, noop_barrier)]
        pub fn $name() {
            let base: [u8; 12] = kani::any();
            let s1: u64 = kani::any();
            let s2: u64 = kani::any();
            let n1 = mix_nonce_bytes::<$aead>(&base, s1);
            let n2 = mix_nonce_bytes::<$aead>(&base, s2);
            assert!(n1.len() == 12);
            assert!(n1[..] == expected_nonce(&base, s1)[..]);
            assert!(n2[..] == expected_nonce(&base, s2)[..]);
            if s1 != s2 {
                assert!(n1 != n2);
            }
        }
    };
}
//@h name=c04_l2_mix_nonce_aes128 tier=quick mode=func timeout=300 desc="real mix_nonce on AesGcm128: equals RFC 9180 ComputeNonce and is injective in seq" bounds="all base nonces x all pairs of 64-bit sequence numbers"
//@h name=c04_l2_mix_nonce_aes256 tier=quick mode=func timeout=300 desc="same on AesGcm256" bounds="all base nonces x all pairs of 64-bit sequence numbers"
//@h name=c04_l2_mix_nonce_chacha tier=quick mode=func timeout=300 desc="same on ChaCha20Poly1305" bounds="all base nonces x all pairs of 64-bit sequence numbers"
//@h name=c04_l2_mix_nonce_model tier=thorough mode=full timeout=300 desc="same on the model AEAD, all default checks on" bounds="all base nonces x all pairs of 64-bit sequence numbers"
mix_harness!(c04_l2_mix_nonce_aes128, AesGcm128);
mix_harness!(c04_l2_mix_nonce_aes256, AesGcm256);
mix_harness!(c04_l2_mix_nonce_chacha, ChaCha20Poly1305);
mix_harness!(c04_l2_mix_nonce_model, SpyAead16);

//@h name=c04_l4_write_be tier=quick mode=full timeout=120 desc="write_u64_be / write_u16_be equal to_be_bytes for every value" bounds="all 2^64 / 2^16 values"
/// L4: big-endian writers
#[kani::proof]
#[kani::unwind(10)]
pub fn c04_l4_write_be() {
    let n: u64 = kani::any();
    let mut b = [0u8; 8];
    write_u64_be(&mut b, n);
    assert!(b == n.to_be_bytes());
    let m: u16 = kani::any();
    let mut c = [0u8; 2];
    write_u16_be(&mut c, m);
    assert!(c == m.to_be_bytes());
}

//@h name=c04_hist_three_seals tier=quick mode=func timeout=900 desc="three consecutive seals from an arbitrary non-exhausted state: nonces are base^BE(seq+i), pairwise distinct; success exactly while seq+i <= 2^64-1; refusal leaves buffer and AEAD untouched" bounds="key/base nonce/seq symbolic (all 2^64 start positions incl. the last three); 2-byte messages; unwind 20"
/// History: three consecutive seals from an arbitrary state use three pairwise different nonces,
/// namely base ^ BE(seq), base ^ BE(seq+1), base ^ BE(seq+2); once refused, always refused.
#[kani::proof]
#[kani::unwind(20)]
#[kani::stub(zeroize::optimization_barrier, noop_barrier)]
pub fn c04_hist_three_seals() {
    let key: [u8; 16] = kani::any();
    let base: [u8; 12] = kani::any();
    let exp: [u8; 8] = kani::any();
    let seq: u64 = kani::any();
    let mut ctx = ctx_s_from_parts::<A, K, M>(&key, &base, &exp, seq, false);
    spy().enc_ok = true;
    let mut nonces = [[0u8; 12]; 3];
    let mut oks = [false; 3];
    let mut k = 0;
    while k < 3 {
        let mut buf: [u8; 2] = kani::any();
        let before = buf;
        let encs0 = spy().encs;
        let r = ctx.seal_in_place_detached(&mut buf, &[]);
        oks[k] = r.is_ok();
        if oks[k] {
            nonces[k] = spy().last.nonce;
            assert!(nonces[k] == expected_nonce(&base, seq.wrapping_add(k as u64)));
            assert!(seq.checked_add(k as u64).is_some());
        } else {
            assert!(matches!(r, Err(HpkeError::MessageLimitReached)));
            assert!(buf == before && spy().encs == encs0);
        }
        k += 1;
    }
    // works at least until 2^64-1 has been used
    assert!(oks[0]);
    assert!(oks[1] == (seq <= u64::MAX - 1));
    assert!(oks[2] == (seq <= u64::MAX - 2));
    if oks[1] {
        assert!(nonces[0] != nonces[1]);
    }
    if oks[2] {
        assert!(nonces[0] != nonces[2] && nonces[1] != nonces[2]);
    }
    kani::cover!(!oks[2] && oks[1], "exhaustion reached inside the history");
}
