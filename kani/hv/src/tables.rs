//! Instantiation tables (DESIGN.md section 1.4): the non-parametric facts about the REAL suites
//! that the model-instantiated proofs rely on - algorithm identifiers, every N* size, suite-id
//! bytes, KEM<->KDF pairing (through Nsecret), capacity facts.  Decided by the solver over the
//! compiled code, so a wrong constant in any impl is a counterexample.
use crate::rfc9180 as rfc;
use crate::util::*;
use aead::{AeadCore, KeySizeUser};
use hpke::aead::{Aead, AeadTag, AesGcm128, AesGcm256, ChaCha20Poly1305, ExportOnlyAead};
use hpke::generic_array::typenum::Unsigned;
use hpke::kdf::{HkdfSha256, HkdfSha384, HkdfSha512, Kdf};
use hpke::kem::{DhP256HkdfSha256, DhP384HkdfSha384, DhP521HkdfSha512, Kem as KemTrait, SharedSecret, X25519HkdfSha256};
use hpke::verif_hooks::*;
use hpke::{Deserializable, Serializable};

fn kem_row<K: KemTrait>(id: u16, npk: usize, nsk: usize, nenc: usize, nsecret: usize) {
    assert!(K::KEM_ID == id);
    assert!(<K::PublicKey as Serializable>::size() == npk);
    assert!(<K::PrivateKey as Serializable>::size() == nsk);
    assert!(<K::EncappedKey as Serializable>::size() == nenc);
    assert!(<K::NSecret as Unsigned>::USIZE == nsecret);
    assert!(core::mem::size_of::<SharedSecret<K>>() == nsecret);
    assert!(kem_suite_id::<K>() == rfc::kem_suite_id(id));
    assert!(npk <= MAX_PUBKEY_SIZE);
}
fn kdf_row<K: Kdf>(id: u16, nh: usize) {
    assert!(K::KDF_ID == id);
    assert!(<K::HashImpl as digest::Digest>::output_size() == nh);
    assert!(nh <= MAX_DIGEST_SIZE);
    assert!(255 * nh < 65536);
}
fn aead_row<A: Aead>(id: u16, nk: usize, nn: usize, nt: usize) {
    assert!(A::AEAD_ID == id);
    assert!(<<A::AeadImpl as KeySizeUser>::KeySize as Unsigned>::USIZE == nk);
    assert!(<<A::AeadImpl as AeadCore>::NonceSize as Unsigned>::USIZE == nn);
    assert!(<<A::AeadImpl as AeadCore>::TagSize as Unsigned>::USIZE == nt);
    assert!(<AeadTag<A> as Serializable>::size() == nt);
    assert!(nn >= 8);
}
fn suite_row<A: Aead, K: Kdf, M: KemTrait>(kem: u16, kdf: u16, aead: u16) {
    assert!(full_suite_id::<A, K, M>() == rfc::full_suite_id(kem, kdf, aead));
}
macro_rules! suites_for_kem {
    ($m:ty, $id:expr) => {
        suite_row::<AesGcm128, HkdfSha256, $m>($id, 1, 1);
        suite_row::<AesGcm256, HkdfSha256, $m>($id, 1, 2);
        suite_row::<ChaCha20Poly1305, HkdfSha256, $m>($id, 1, 3);
        suite_row::<ExportOnlyAead, HkdfSha256, $m>($id, 1, 0xffff);
        suite_row::<AesGcm128, HkdfSha384, $m>($id, 2, 1);
        suite_row::<AesGcm256, HkdfSha384, $m>($id, 2, 2);
        suite_row::<ChaCha20Poly1305, HkdfSha384, $m>($id, 2, 3);
        suite_row::<ExportOnlyAead, HkdfSha384, $m>($id, 2, 0xffff);
        suite_row::<AesGcm128, HkdfSha512, $m>($id, 3, 1);
        suite_row::<AesGcm256, HkdfSha512, $m>($id, 3, 2);
        suite_row::<ChaCha20Poly1305, HkdfSha512, $m>($id, 3, 3);
        suite_row::<ExportOnlyAead, HkdfSha512, $m>($id, 3, 0xffff);
    };
}

//@h name=c02_l6_tables tier=quick mode=full prop=C02 also=C01,C03,C12,C13 timeout=600 desc="RFC 9180 tables on the REAL types: KEM ids 0x0020/0x0010/0x0011/0x0012 with Npk/Nsk/Nenc/Nsecret = 32/32/32/32, 65/32/65/32, 97/48/97/48, 133/66/133/64; KDF ids 1/2/3 with Nh 32/48/64; AEAD ids 1/2/3/0xFFFF with Nk/Nn/Nt 16/12/16, 32/12/16, 32/12/16, 0/128/0; suite_id bytes of all 48 suites and 4 KEMs; capacity facts Npk <= 133, Nh <= 64, Nn >= 8, 255*Nh < 2^16" bounds="all 48 real suites (4 KEMs x 3 KDFs x 4 AEADs); constants, decided over the compiled code"
#[kani::proof]
#[kani::unwind(12)]
pub fn c02_l6_tables() {
    kem_row::<X25519HkdfSha256>(0x0020, 32, 32, 32, 32);
    kem_row::<DhP256HkdfSha256>(0x0010, 65, 32, 65, 32);
    kem_row::<DhP384HkdfSha384>(0x0011, 97, 48, 97, 48);
    kem_row::<DhP521HkdfSha512>(0x0012, 133, 66, 133, 64);
    kdf_row::<HkdfSha256>(1, 32);
    kdf_row::<HkdfSha384>(2, 48);
    kdf_row::<HkdfSha512>(3, 64);
    aead_row::<AesGcm128>(1, 16, 12, 16);
    aead_row::<AesGcm256>(2, 32, 12, 16);
    aead_row::<ChaCha20Poly1305>(3, 32, 12, 16);
    aead_row::<ExportOnlyAead>(0xffff, 0, 128, 0);
    suites_for_kem!(X25519HkdfSha256, 0x0020);
    suites_for_kem!(DhP256HkdfSha256, 0x0010);
    suites_for_kem!(DhP384HkdfSha384, 0x0011);
    suites_for_kem!(DhP521HkdfSha512, 0x0012);
}

/// The RNG of the real-KEM gen_keypair harnesses: hands out the byte pattern 0xA0 ^ position and
/// counts what it handed out, however the calls are split.
pub struct PatternRng {
    pub drawn: usize,
}
impl hpke::rand_core::RngCore for PatternRng {
    fn next_u32(&mut self) -> u32 {
        let mut b = [0u8; 4];
        self.fill_bytes(&mut b);
        u32::from_le_bytes(b)
    }
    fn next_u64(&mut self) -> u64 {
        let mut b = [0u8; 8];
        self.fill_bytes(&mut b);
        u64::from_le_bytes(b)
    }
    fn fill_bytes(&mut self, dst: &mut [u8]) {
        let mut i = 0;
        while i < dst.len() {
            dst[i] = 0xa0 ^ (self.drawn as u8);
            self.drawn += 1;
            i += 1;
        }
    }
}
impl hpke::rand_core::CryptoRng for PatternRng {}
pub static mut DRAWN: usize = 0;

macro_rules! real_gen_keypair_draw {
    ($name:ident, $stub:ident, $kem:ty, $nsk:expr) => {
        /// replaces `<$kem as Kem>::derive_keypair`: gen_keypair must hand it exactly the Nsk bytes it
        /// drew from the caller's RNG; what derive_keypair does with them is decided elsewhere
        /// (c03_l2/l4), so the path ends here
        pub fn $stub(ikm: &[u8]) -> (<$kem as KemTrait>::PrivateKey, <$kem as KemTrait>::PublicKey) {
            kani::cover!(true, "derive_keypair reached");
            assert!(ikm.len() == $nsk, "gen_keypair must derive from exactly Nsk random bytes");
            let mut i = 0;
            while i < $nsk {
                assert!(ikm[i] == 0xa0 ^ (i as u8), "the ikm is not the bytes drawn from the RNG");
                i += 1;
            }
            kani::assume(false);
            loop {}
        }
        #[kani::proof]
        #[kani::unwind(70)]
        #[kani::stub(zeroize::optimization_barrier, noop_barrier)]
        #[kani::stub(<$kem as hpke::kem::Kem>::derive_keypair, $stub)]
        pub fn $name() {
            let mut rng = PatternRng { drawn: 0 };
            let _ = <$kem as KemTrait>::gen_keypair(&mut rng);
            assert!(false, "gen_keypair returned without calling derive_keypair");
        }
    };
}
//@h name=c03_l3_gen_draw_x25519 tier=quick mode=func prop=C03 also=C02 timeout=600 replay=log desc="real DHKEM(X25519): gen_keypair hands derive_keypair exactly the Nsk = 32 bytes it drew from the caller's RNG, however the draws are split (derive_keypair is replaced by an assertion point that ends the path; a cover witness shows it is reached)" bounds="real type; the derivation after the draw is covered for the model KEM by c03_l3_gen_keypair_toy"
real_gen_keypair_draw!(c03_l3_gen_draw_x25519, stub_derive_x25519, X25519HkdfSha256, 32);
//@h name=c03_l3_gen_draw_p256 tier=quick mode=func prop=C03 also=C02 timeout=600 replay=log desc="real DHKEM(P-256): gen_keypair derives from exactly the Nsk = 32 bytes drawn" bounds="real type"
real_gen_keypair_draw!(c03_l3_gen_draw_p256, stub_derive_p256, DhP256HkdfSha256, 32);
//@h name=c03_l3_gen_draw_p384 tier=quick mode=func prop=C03 also=C02 timeout=600 replay=log desc="real DHKEM(P-384): gen_keypair derives from exactly the Nsk = 48 bytes drawn" bounds="real type"
real_gen_keypair_draw!(c03_l3_gen_draw_p384, stub_derive_p384, DhP384HkdfSha384, 48);
//@h name=c03_l3_gen_draw_p521 tier=quick mode=func prop=C03 also=C02 timeout=600 replay=log desc="real DHKEM(P-521): gen_keypair derives from exactly the Nsk = 66 bytes drawn (not Nsecret = 64)" bounds="real type"
real_gen_keypair_draw!(c03_l3_gen_draw_p521, stub_derive_p521, DhP521HkdfSha512, 66);
