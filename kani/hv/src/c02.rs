//! C02 - wire-exact RFC 9180 (DESIGN.md section 2, C02): the real setup_sender / setup_receiver /
//! derive_enc_ctx / export instantiated with the model KEM DHKEM(XorDh,LinKdf), KDF LinKdf and the
//! spy AEAD, compared output-for-output with the RFC transcription in rfc9180.rs.
//! (L1 = C03 harnesses, L3 = C04/C06 harnesses, L4 = C11 harnesses, L6 = tables.rs.)
use crate::c03::{enc_from, G8, KEM_ID};
use crate::models::*;
use crate::rfc9180 as rfc;
use crate::util::*;
use hpke::kem::{Kem as KemTrait, ToyKemLin};
use hpke::verif_model::{LinHash, LinKdf, XorPrivateKey, XorPublicKey};
use hpke::{setup_receiver, setup_sender, HpkeError, OpModeR, OpModeS, PskBundle, Serializable};

pub const KDF_ID: u16 = 0x7101;
pub const AEAD_ID: u16 = 0x7401;
const INFO: usize = 2;
const PSK: usize = 2;
const XC: usize = 2;

/// compare a context's secrets with a reference schedule
macro_rules! assert_schedule {
    ($ctx:expr, $sched:expr) => {{
        let s = spy();
        assert!(s.news >= 1 && s.new_key_len == 16);
        assert!(eq_bytes(&s.new_key[..16], $sched.key.as_slice()));
        assert!(eq_bytes($ctx.verif_base_nonce(), $sched.base_nonce.as_slice()));
        assert!(eq_bytes($ctx.verif_exporter_secret(), $sched.exporter_secret.as_slice()));
        assert!($ctx.verif_seq_state() == (0, false));
    }};
}

macro_rules! receiver_harness {
    ($name:ident, $mode:expr) => {
        #[kani::proof]
        #[kani::unwind(20)]
        #[kani::stub(zeroize::optimization_barrier, noop_barrier)]
        #[kani::stub(hkdf::HkdfExtract::new, crate::fasthkdf::stub_extract_new)]
        #[kani::stub(hkdf::HkdfExtract::input_ikm, crate::fasthkdf::stub_input_ikm)]
        #[kani::stub(hkdf::HkdfExtract::finalize, crate::fasthkdf::stub_finalize)]
        #[kani::stub(hkdf::Hkdf::from_prk, crate::fasthkdf::stub_from_prk)]
        #[kani::stub(hkdf::Hkdf::expand_multi_info, crate::fasthkdf::stub_expand_multi_info)]
        pub fn $name() {
            const MODE: u8 = $mode;
            let sk_r: u16 = kani::any();
            let enc: u16 = kani::any();
            let pk_s: u16 = kani::any();
            let info: [u8; INFO] = kani::any();
            let il = any_len(INFO);
            let psk: [u8; PSK] = kani::any();
            let pl = any_len(PSK);
            let pid: [u8; PSK] = kani::any();
            let dl = any_len(PSK);
            kani::assume(pl >= 1 && dl >= 1); // RFC 9180 VerifyPSKInputs: PSK modes need both
            let (psk_s, pid_s): (&[u8], &[u8]) = if MODE & 1 == 1 { (&psk[..pl], &pid[..dl]) } else { (&[], &[]) };
            let bundle = PskBundle::new(psk_s, pid_s).unwrap();
            let mode = match MODE {
                0 => OpModeR::<ToyKemLin>::Base,
                1 => OpModeR::Psk(bundle),
                2 => OpModeR::Auth(XorPublicKey(pk_s)),
                _ => OpModeR::AuthPsk(XorPublicKey(pk_s), bundle),
            };
            let res = setup_receiver::<SpyAead16, LinKdf, ToyKemLin>(&mode, &XorPrivateKey(sk_r), &enc_from(enc), &info[..il]);
            let auth = if MODE & 2 == 2 { Some(pk_s) } else { None };
            let wss = rfc::decap::<G8, LinHash>(KEM_ID, enc, sk_r, auth);
            match (res, wss) {
                (Ok(ctx), Some(ss)) => {
                    let suite = rfc::full_suite_id(KEM_ID, KDF_ID, AEAD_ID);
                    let sched = rfc::key_schedule::<LinHash>(MODE, ss.as_slice(), &info[..il], psk_s, pid_s, &suite, 16, 12);
                    assert_schedule!(ctx, sched);
                }
                (Err(e), None) => assert!(e == HpkeError::DecapError),
                _ => assert!(false, "setup_receiver success/failure differs from RFC 9180"),
            }
            kani::cover!(il == INFO && (MODE & 1 == 0 || (pl == PSK && dl == 1)), "longest info");
            kani::cover!(il == 0, "empty info");
        }
    };
}
//@h name=c02_l2_receiver_base tier=quick mode=func also=C01 timeout=1200 desc="setup_receiver in Base mode: key (as handed to the AEAD), base_nonce, exporter_secret and initial seq all equal RFC 9180 SetupBaseR / KeySchedule; DecapError iff Decap fails" bounds="all skR, enc (2^32); info 0..=2 B symbolic; model suite DHKEM(XorDh,LinKdf)/LinKdf/SpyAead16 (Nk=16,Nn=12,Nh=8); unwind 20"
receiver_harness!(c02_l2_receiver_base, 0);
//@h name=c02_l2_receiver_psk tier=quick mode=func also=C15,C01 timeout=1200 desc="same for Psk mode (mode byte 1, psk -> secret extract, psk_id -> psk_id_hash)" bounds="as Base plus psk, psk_id 1..=2 B each symbolic"
receiver_harness!(c02_l2_receiver_psk, 1);
//@h name=c02_l2_receiver_auth tier=quick mode=func also=C01 timeout=1200 desc="same for Auth mode (AuthDecap with the expected sender key)" bounds="as Base plus all 2^16 pkS"
receiver_harness!(c02_l2_receiver_auth, 2);
//@h name=c02_l2_receiver_authpsk tier=quick mode=func also=C15,C01 timeout=1200 desc="same for AuthPsk mode" bounds="as Auth plus psk, psk_id 1..=2 B"
receiver_harness!(c02_l2_receiver_authpsk, 3);

macro_rules! sender_harness {
    ($name:ident, $mode:expr) => {
        #[kani::proof]
        #[kani::unwind(20)]
        #[kani::stub(zeroize::optimization_barrier, noop_barrier)]
        #[kani::stub(hkdf::HkdfExtract::new, crate::fasthkdf::stub_extract_new)]
        #[kani::stub(hkdf::HkdfExtract::input_ikm, crate::fasthkdf::stub_input_ikm)]
        #[kani::stub(hkdf::HkdfExtract::finalize, crate::fasthkdf::stub_finalize)]
        #[kani::stub(hkdf::Hkdf::from_prk, crate::fasthkdf::stub_from_prk)]
        #[kani::stub(hkdf::Hkdf::expand_multi_info, crate::fasthkdf::stub_expand_multi_info)]
        pub fn $name() {
            const MODE: u8 = $mode;
            let bytes: [u8; RNG_CAP] = kani::any();
            let mut rng = ScriptRng::new(bytes);
            let pk_r: u16 = kani::any();
            let sk_s: u16 = kani::any();
            let info: [u8; INFO] = kani::any();
            let il = any_len(INFO);
            let psk: [u8; PSK] = kani::any();
            let pl = any_len(PSK);
            let pid: [u8; PSK] = kani::any();
            let dl = any_len(PSK);
            kani::assume(pl >= 1 && dl >= 1);
            let (psk_s, pid_s): (&[u8], &[u8]) = if MODE & 1 == 1 { (&psk[..pl], &pid[..dl]) } else { (&[], &[]) };
            let bundle = PskBundle::new(psk_s, pid_s).unwrap();
            let sks = XorPrivateKey(sk_s);
            let pks = ToyKemLin::sk_to_pk(&sks);
            let mode = match MODE {
                0 => OpModeS::<ToyKemLin>::Base,
                1 => OpModeS::Psk(bundle),
                2 => OpModeS::Auth((sks, pks)),
                _ => OpModeS::AuthPsk((sks, pks), bundle),
            };
            let res = setup_sender::<SpyAead16, LinKdf, ToyKemLin, _>(&mode, &XorPublicKey(pk_r), &info[..il], &mut rng);
            // the ephemeral key pair is DeriveKeyPair of the Nsk random bytes drawn
            assert!(rng.pos == 2 && !rng.overflow, "exactly Nsk bytes must be drawn from the caller's RNG");
            let mut e = [0u8; 2];
            rfc::derive_sk_simple::<LinHash>(KEM_ID, &bytes[..2], &mut e);
            let sk_e = u16::from_be_bytes(e);
            let auth = if MODE & 2 == 2 { Some(sk_s) } else { None };
            let want = rfc::encap::<G8, LinHash>(KEM_ID, pk_r, sk_e, auth);
            match (res, want) {
                (Ok((enc, ctx)), Some((ss, wenc))) => {
                    assert!(eq_bytes(&enc.to_bytes(), wenc.as_slice()));
                    let suite = rfc::full_suite_id(KEM_ID, KDF_ID, AEAD_ID);
                    let sched = rfc::key_schedule::<LinHash>(MODE, ss.as_slice(), &info[..il], psk_s, pid_s, &suite, 16, 12);
                    assert_schedule!(ctx, sched);
                }
                (Err(e), None) => assert!(e == HpkeError::EncapError),
                _ => assert!(false, "setup_sender success/failure differs from RFC 9180"),
            }
            kani::cover!(il == INFO, "longest info");
        }
    };
}
//@h name=c02_l2_sender_base tier=quick mode=func also=C01 timeout=1200 desc="setup_sender in Base mode with a scripted RNG: enc, key, base_nonce, exporter_secret all equal RFC 9180 SetupBaseS with skE = DeriveKeyPair(the Nsk bytes drawn); exactly Nsk bytes drawn; EncapError iff Encap fails" bounds="all RNG outputs, pkR; info 0..=2 B; model suite; unwind 20"
sender_harness!(c02_l2_sender_base, 0);
//@h name=c02_l2_sender_psk tier=quick mode=func also=C15,C01 timeout=1200 desc="same for Psk mode" bounds="as Base plus psk, psk_id 1..=2 B"
sender_harness!(c02_l2_sender_psk, 1);
//@h name=c02_l2_sender_auth tier=quick mode=func also=C01 timeout=1200 desc="same for Auth mode (AuthEncap with the sender identity key)" bounds="as Base plus all 2^16 skS"
sender_harness!(c02_l2_sender_auth, 2);
//@h name=c02_l2_sender_authpsk tier=quick mode=func also=C15,C01 timeout=1200 desc="same for AuthPsk mode" bounds="as Auth plus psk, psk_id 1..=2 B"
sender_harness!(c02_l2_sender_authpsk, 3);

//@h name=c02_l0_labeled_kdf_real tier=quick mode=func also=C03,C11,C01,C15 timeout=900 desc="UN-stubbed anchor: hpke's labeled_extract / labeled_expand running through the REAL hkdf and hmac crates over the model hash equal the hand-written RFC 9180 section 4 / RFC 5869 / RFC 2104 reference for arbitrary salt, suite id, ikm and info (this is what justifies replacing the hkdf crate by its functional model in the composed harnesses)" bounds="salt 0..=8 B, ikm 0..=3 B, info 0..=3 B, suite id (10 B) symbolic; L = 12 (two HKDF blocks); LinHash; unwind 20"
#[kani::proof]
#[kani::unwind(20)]
pub fn c02_l0_labeled_kdf_real() {
    use hpke::kdf::{labeled_extract, LabeledExpand};
    let salt: [u8; 8] = kani::any();
    let sl = any_len(8);
    let ikm: [u8; 3] = kani::any();
    let il = any_len(3);
    let suite: [u8; 10] = kani::any();
    let (prk, ctx) = labeled_extract::<LinKdf>(&salt[..sl], &suite, b"secret", &ikm[..il]);
    let want = rfc::labeled_extract::<LinHash>(&salt[..sl], &suite, b"secret", &ikm[..il]);
    assert!(eq_bytes(&prk, want.as_slice()));
    let info: [u8; 3] = kani::any();
    let nl = any_len(3);
    let mut out = [0u8; 12];
    let mut wout = [0u8; 12];
    assert!(ctx.labeled_expand(&suite, b"base_nonce", &info[..nl], &mut out).is_ok());
    assert!(rfc::labeled_expand::<LinHash>(want.as_slice(), &suite, b"base_nonce", &info[..nl], &mut wout));
    assert!(out == wout);
    kani::cover!(sl == 8 && il == 3 && nl == 3, "longest inputs");
    kani::cover!(sl == 0 && il == 0 && nl == 0, "all empty");
}

//@h name=c02_l2_receiver_base_real tier=thorough mode=func timeout=5400 desc="UN-stubbed anchor at the composition level: the whole Base-mode setup_receiver (decap + key schedule) through the REAL hkdf and hmac crates over the model hash equals the RFC 9180 reference (ties the stub layer's contract to the real crates end to end; 1.2 M symbolic-execution steps)" bounds="all skR, enc; info 0..=1 B; model suite; unwind 20"
#[kani::proof]
#[kani::unwind(20)]
#[kani::stub(zeroize::optimization_barrier, noop_barrier)]
pub fn c02_l2_receiver_base_real() {
    let sk_r: u16 = kani::any();
    let enc: u16 = kani::any();
    let info: [u8; 1] = kani::any();
    let il = any_len(1);
    let res = setup_receiver::<SpyAead16, LinKdf, ToyKemLin>(&OpModeR::Base, &XorPrivateKey(sk_r), &enc_from(enc), &info[..il]);
    match (res, rfc::decap::<G8, LinHash>(KEM_ID, enc, sk_r, None)) {
        (Ok(ctx), Some(ss)) => {
            let suite = rfc::full_suite_id(KEM_ID, KDF_ID, AEAD_ID);
            let sched = rfc::key_schedule::<LinHash>(0, ss.as_slice(), &info[..il], &[], &[], &suite, 16, 12);
            assert_schedule!(ctx, sched);
        }
        (Err(e), None) => assert!(e == HpkeError::DecapError),
        _ => assert!(false, "setup_receiver success/failure differs from RFC 9180"),
    }
}
