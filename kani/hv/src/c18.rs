//! C18 - no hidden state (DESIGN.md section 2, C18): history independence and independence of
//! coexisting contexts, decided sequentially; plus compile-time Send/Sync assertions for every
//! public type of every real suite (a failure there is a build failure of this crate, reported by
//! run.py as the violation).  Thread schedules themselves are outside Kani.
use crate::c02::{AEAD_ID, KDF_ID};
use crate::c03::{enc_from, G8, KEM_ID};
use crate::models::*;
use crate::rfc9180 as rfc;
use crate::util::*;
use hpke::aead::{AeadCtxR, AeadCtxS, AeadTag, AesGcm128, AesGcm256, ChaCha20Poly1305, ExportOnlyAead};
use hpke::kdf::{HkdfSha256, HkdfSha384, HkdfSha512};
use hpke::kem::{DhP256HkdfSha256, DhP384HkdfSha384, DhP521HkdfSha512, Kem as KemTrait, ToyKemLin, X25519HkdfSha256};
use hpke::verif_hooks::*;
use hpke::verif_model::{LinHash, LinKdf, XorPrivateKey, XorPublicKey};
use hpke::{setup_receiver, setup_sender, Deserializable, HpkeError, OpModeR, OpModeS, PskBundle, Serializable};

type K = LinKdf;
type M = ToyKemLin;

// ---- L3: Send + Sync for the public types of every real suite (compile time) ------------------
fn assert_send_sync<T: Send + Sync>() {}
macro_rules! suite_send_sync {
    ($a:ty, $k:ty, $m:ty) => {
        assert_send_sync::<AeadCtxS<$a, $k, $m>>();
        assert_send_sync::<AeadCtxR<$a, $k, $m>>();
        assert_send_sync::<AeadTag<$a>>();
        assert_send_sync::<<$m as KemTrait>::PublicKey>();
        assert_send_sync::<<$m as KemTrait>::PrivateKey>();
        assert_send_sync::<<$m as KemTrait>::EncappedKey>();
        assert_send_sync::<OpModeR<'static, $m>>();
        assert_send_sync::<OpModeS<'static, $m>>();
    };
}
macro_rules! all_kdfs {
    ($a:ty, $m:ty) => {
        suite_send_sync!($a, HkdfSha256, $m);
        suite_send_sync!($a, HkdfSha384, $m);
        suite_send_sync!($a, HkdfSha512, $m);
    };
}
macro_rules! all_aeads {
    ($m:ty) => {
        all_kdfs!(AesGcm128, $m);
        all_kdfs!(AesGcm256, $m);
        all_kdfs!(ChaCha20Poly1305, $m);
        all_kdfs!(ExportOnlyAead, $m);
    };
}
pub fn send_sync_table() {
    all_aeads!(X25519HkdfSha256);
    all_aeads!(DhP256HkdfSha256);
    all_aeads!(DhP384HkdfSha384);
    all_aeads!(DhP521HkdfSha512);
    assert_send_sync::<HpkeError>();
    assert_send_sync::<PskBundle<'static>>();
}

//@h name=c18_l3_send_sync tier=quick mode=full timeout=300 desc="the 48 real suites' contexts, tags, keys, encapsulated keys and mode types are Send + Sync (type-checked when this crate is built; the harness only anchors the instantiation)" bounds="4 KEMs x 3 KDFs x 4 AEADs; verdict of the Rust type checker, recorded as such"
#[kani::proof]
pub fn c18_l3_send_sync() {
    send_sync_table();
}

// ---- L1: history independence ------------------------------------------------------------------

//@h name=c18_l1_sender_after_sender tier=quick mode=func timeout=2400 desc="history independence of sender setup: a first setup_sender (another session: other recipient, other RNG stream - possibly the SAME bytes) is performed, then a second one; the second draws exactly Nsk bytes from its own RNG and its enc, key, base nonce and exporter secret equal the RFC 9180 values computed from its own arguments and RNG bytes alone" bounds="both RNG streams (equal or different), both recipient keys, info 0..=1 B symbolic; Base mode; model suite; unwind 20"
#[kani::proof]
#[kani::unwind(20)]
#[kani::stub(zeroize::optimization_barrier, noop_barrier)]
#[kani::stub(hkdf::HkdfExtract::new, crate::fasthkdf::stub_extract_new)]
#[kani::stub(hkdf::HkdfExtract::input_ikm, crate::fasthkdf::stub_input_ikm)]
#[kani::stub(hkdf::HkdfExtract::finalize, crate::fasthkdf::stub_finalize)]
#[kani::stub(hkdf::Hkdf::from_prk, crate::fasthkdf::stub_from_prk)]
#[kani::stub(hkdf::Hkdf::expand_multi_info, crate::fasthkdf::stub_expand_multi_info)]
pub fn c18_l1_sender_after_sender() {
    let b1: [u8; RNG_CAP] = kani::any();
    let b2: [u8; RNG_CAP] = kani::any();
    let mut rng1 = ScriptRng::new(b1);
    let mut rng2 = ScriptRng::new(b2);
    let pk1: u16 = kani::any();
    let pk2: u16 = kani::any();
    let info: [u8; 1] = kani::any();
    let il = any_len(1);
    // prefix: another session
    let first = setup_sender::<SpyAead16, K, M, _>(&OpModeS::Base, &XorPublicKey(pk1), &[], &mut rng1);
    let news0 = spy().news;
    // operation under test
    let res = setup_sender::<SpyAead16, K, M, _>(&OpModeS::Base, &XorPublicKey(pk2), &info[..il], &mut rng2);
    assert!(rng2.pos == 2 && !rng2.overflow, "RNG usage depends on an earlier call");
    let mut e = [0u8; 2];
    rfc::derive_sk_simple::<LinHash>(KEM_ID, &b2[..2], &mut e);
    let want = rfc::encap::<G8, LinHash>(KEM_ID, pk2, u16::from_be_bytes(e), None);
    match (res, want) {
        (Ok((enc, ctx)), Some((ss, wenc))) => {
            assert!(eq_bytes(&enc.to_bytes(), wenc.as_slice()), "encapsulated key depends on an earlier call");
            let suite = rfc::full_suite_id(KEM_ID, KDF_ID, AEAD_ID);
            let sched = rfc::key_schedule::<LinHash>(0, ss.as_slice(), &info[..il], &[], &[], &suite, 16, 12);
            assert!(spy().news != news0);
            assert!(eq_bytes(&spy().new_key[..16], sched.key.as_slice()));
            assert!(eq_bytes(ctx.verif_base_nonce(), sched.base_nonce.as_slice()));
            assert!(eq_bytes(ctx.verif_exporter_secret(), sched.exporter_secret.as_slice()));
        }
        (Err(x), None) => assert!(x == HpkeError::EncapError),
        _ => assert!(false, "result depends on an earlier call"),
    }
    kani::cover!(first.is_ok() && b1[0] == b2[0] && b1[1] == b2[1] && pk1 == pk2, "identical earlier session");
    kani::cover!(first.is_err(), "earlier session failed");
}

//@h name=c18_l1_receiver_after_ops tier=quick mode=func timeout=2400 desc="history independence of receiver setup and open: after another session's setup_receiver, a failed open and a successful open on that other context, a fresh setup_receiver yields exactly the RFC 9180 schedule of its own arguments and starts at position 0" bounds="both sessions' keys/enc symbolic; info 0..=1 B; Base mode; model suite; unwind 20"
#[kani::proof]
#[kani::unwind(20)]
#[kani::stub(zeroize::optimization_barrier, noop_barrier)]
#[kani::stub(hkdf::HkdfExtract::new, crate::fasthkdf::stub_extract_new)]
#[kani::stub(hkdf::HkdfExtract::input_ikm, crate::fasthkdf::stub_input_ikm)]
#[kani::stub(hkdf::HkdfExtract::finalize, crate::fasthkdf::stub_finalize)]
#[kani::stub(hkdf::Hkdf::from_prk, crate::fasthkdf::stub_from_prk)]
#[kani::stub(hkdf::Hkdf::expand_multi_info, crate::fasthkdf::stub_expand_multi_info)]
pub fn c18_l1_receiver_after_ops() {
    let sk1: u16 = kani::any();
    let enc1: u16 = kani::any();
    let sk2: u16 = kani::any();
    let enc2: u16 = kani::any();
    let info: [u8; 1] = kani::any();
    let il = any_len(1);
    let tag = AeadTag::<SpyAead16>::from_bytes(&[9u8; 16]).unwrap();
    if let Ok(mut other) = setup_receiver::<SpyAead16, K, M>(&OpModeR::Base, &XorPrivateKey(sk1), &enc_from(enc1), &[]) {
        let mut buf: [u8; 2] = kani::any();
        spy().dec_ok = false;
        let _ = other.open_in_place_detached(&mut buf, &[], &tag);
        spy().dec_ok = true;
        let _ = other.open_in_place_detached(&mut buf, &[], &tag);
        let mut out = [0u8; 3];
        let _ = other.export(&[], &mut out);
    }
    let news0 = spy().news;
    let res = setup_receiver::<SpyAead16, K, M>(&OpModeR::Base, &XorPrivateKey(sk2), &enc_from(enc2), &info[..il]);
    match (res, rfc::decap::<G8, LinHash>(KEM_ID, enc2, sk2, None)) {
        (Ok(ctx), Some(ss)) => {
            let suite = rfc::full_suite_id(KEM_ID, KDF_ID, AEAD_ID);
            let sched = rfc::key_schedule::<LinHash>(0, ss.as_slice(), &info[..il], &[], &[], &suite, 16, 12);
            assert!(spy().news != news0);
            assert!(eq_bytes(&spy().new_key[..16], sched.key.as_slice()));
            assert!(eq_bytes(ctx.verif_base_nonce(), sched.base_nonce.as_slice()));
            assert!(eq_bytes(ctx.verif_exporter_secret(), sched.exporter_secret.as_slice()));
            assert!(ctx.verif_seq_state() == (0, false));
            // and its export (same exporter context and length as the other session used)
            let mut got = [0u8; 3];
            let mut want = [0u8; 3];
            assert!(ctx.export(&[], &mut got).is_ok());
            assert!(rfc::export::<LinHash>(sched.exporter_secret.as_slice(), &suite, &[], &mut want));
            assert!(got == want, "export depends on an earlier call");
        }
        (Err(e), None) => assert!(e == HpkeError::DecapError),
        _ => assert!(false, "result depends on an earlier call"),
    }
}

// ---- L2: coexisting contexts ---------------------------------------------------------------------

//@h name=c18_l2_contexts_independent tier=quick mode=func timeout=2400 desc="independence of coexisting contexts: two sender contexts with arbitrary states; sealing on one leaves the other's position, next nonce and export value untouched, and the two orders (A then B, B then A) produce identical nonces, outputs and final states - the sequential core of 'parallel == sequential'" bounds="both contexts' key/base nonce/exporter secret/seq symbolic; 2-byte messages; L=3 exports; unwind 20"
#[kani::proof]
#[kani::unwind(20)]
#[kani::stub(zeroize::optimization_barrier, noop_barrier)]
pub fn c18_l2_contexts_independent() {
    let ka: [u8; 16] = kani::any();
    let na: [u8; 12] = kani::any();
    let ea: [u8; 8] = kani::any();
    let sa: u64 = kani::any();
    let kb: [u8; 16] = kani::any();
    let nb: [u8; 12] = kani::any();
    let eb: [u8; 8] = kani::any();
    let sb: u64 = kani::any();
    let pa: [u8; 2] = kani::any();
    let pb: [u8; 2] = kani::any();
    spy().enc_ok = true;
    // order 1: A then B
    let mut a1 = ctx_s_from_parts::<SpyAead16, K, M>(&ka, &na, &ea, sa, false);
    let mut b1 = ctx_s_from_parts::<SpyAead16, K, M>(&kb, &nb, &eb, sb, false);
    let mut xb_before = [0u8; 3];
    b1.export(&[], &mut xb_before).unwrap();
    let mut buf = pa;
    let ra1 = a1.seal_in_place_detached(&mut buf, &[]).is_ok();
    let nonce_a1 = spy().last.nonce;
    let out_a1 = buf;
    // B untouched by the operation on A
    assert!(b1.verif_seq_state() == (sb, false));
    let mut xb_after = [0u8; 3];
    b1.export(&[], &mut xb_after).unwrap();
    assert!(xb_before == xb_after);
    let mut buf = pb;
    let rb1 = b1.seal_in_place_detached(&mut buf, &[]).is_ok();
    let nonce_b1 = spy().last.nonce;
    let out_b1 = buf;
    assert!(nonce_b1 == rfc::compute_nonce::<12>(&nb, sb));
    // order 2: B then A
    let mut a2 = ctx_s_from_parts::<SpyAead16, K, M>(&ka, &na, &ea, sa, false);
    let mut b2 = ctx_s_from_parts::<SpyAead16, K, M>(&kb, &nb, &eb, sb, false);
    let mut buf = pb;
    let rb2 = b2.seal_in_place_detached(&mut buf, &[]).is_ok();
    let nonce_b2 = spy().last.nonce;
    let out_b2 = buf;
    let mut buf = pa;
    let ra2 = a2.seal_in_place_detached(&mut buf, &[]).is_ok();
    let nonce_a2 = spy().last.nonce;
    let out_a2 = buf;
    assert!(ra1 == ra2 && rb1 == rb2 && ra1 && rb1);
    assert!(nonce_a1 == nonce_a2 && nonce_b1 == nonce_b2);
    assert!(out_a1 == out_a2 && out_b1 == out_b2);
    assert!(a1.verif_seq_state() == a2.verif_seq_state() && b1.verif_seq_state() == b2.verif_seq_state());
}

//@h name=c18_l2_export_two_contexts tier=quick mode=func also=C11 timeout=1200 desc="exports of coexisting contexts do not influence each other: two contexts with different exporter secrets export under the SAME exporter context and length, interleaved and repeated; every value equals the RFC value of its own context (a memo keyed on the exporter context, the length or 'the last call' would be a counterexample)" bounds="both exporter secrets symbolic (possibly equal), exporter context 0..=2 B, L = 5; sender and receiver roles; LinHash; unwind 20"
#[kani::proof]
#[kani::unwind(20)]
#[kani::stub(zeroize::optimization_barrier, noop_barrier)]
#[kani::stub(hkdf::HkdfExtract::new, crate::fasthkdf::stub_extract_new)]
#[kani::stub(hkdf::HkdfExtract::input_ikm, crate::fasthkdf::stub_input_ikm)]
#[kani::stub(hkdf::HkdfExtract::finalize, crate::fasthkdf::stub_finalize)]
#[kani::stub(hkdf::Hkdf::from_prk, crate::fasthkdf::stub_from_prk)]
#[kani::stub(hkdf::Hkdf::expand_multi_info, crate::fasthkdf::stub_expand_multi_info)]
pub fn c18_l2_export_two_contexts() {
    let ea: [u8; 8] = kani::any();
    let eb: [u8; 8] = kani::any();
    let a = ctx_s_from_parts::<SpyAead16, K, M>(&[1; 16], &[2; 12], &ea, 0, false);
    let b = ctx_r_from_parts::<SpyAead16, K, M>(&[3; 16], &[4; 12], &eb, 7, false);
    let xc: [u8; 2] = kani::any();
    let xl = any_len(2);
    let suite = rfc::full_suite_id(KEM_ID, KDF_ID, AEAD_ID);
    let mut wa = [0u8; 5];
    let mut wb = [0u8; 5];
    assert!(rfc::export::<LinHash>(&ea, &suite, &xc[..xl], &mut wa));
    assert!(rfc::export::<LinHash>(&eb, &suite, &xc[..xl], &mut wb));
    let mut o1 = [0u8; 5];
    let mut o2 = [0u8; 5];
    let mut o3 = [0u8; 5];
    let mut o4 = [0u8; 5];
    a.export(&xc[..xl], &mut o1).unwrap();
    b.export(&xc[..xl], &mut o2).unwrap();
    a.export(&xc[..xl], &mut o3).unwrap();
    b.export(&xc[..xl], &mut o4).unwrap();
    assert!(o1 == wa, "first export of A");
    assert!(o2 == wb, "export of B after A exported the same context string");
    assert!(o3 == wa, "A again");
    assert!(o4 == wb, "B again");
}

//@h name=c18_l2_receivers_independent tier=quick mode=func also=C05 timeout=1200 desc="two coexisting receiver contexts: opening (successfully or not) on one leaves the other's position untouched and the other's next nonce is still its own base nonce XOR its own counter" bounds="both contexts' key/base nonce/seq symbolic; AEAD verdicts symbolic; 2-byte messages; unwind 20"
#[kani::proof]
#[kani::unwind(20)]
#[kani::stub(zeroize::optimization_barrier, noop_barrier)]
pub fn c18_l2_receivers_independent() {
    let ka: [u8; 16] = kani::any();
    let na: [u8; 12] = kani::any();
    let sa: u64 = kani::any();
    let kb: [u8; 16] = kani::any();
    let nb: [u8; 12] = kani::any();
    let sb: u64 = kani::any();
    let mut a = ctx_r_from_parts::<SpyAead16, K, M>(&ka, &na, &[0; 8], sa, false);
    let mut b = ctx_r_from_parts::<SpyAead16, K, M>(&kb, &nb, &[0; 8], sb, false);
    let tag = AeadTag::<SpyAead16>::from_bytes(&[5u8; 16]).unwrap();
    let mut buf: [u8; 2] = kani::any();
    let va: bool = kani::any();
    spy().dec_ok = va;
    let ra = a.open_in_place_detached(&mut buf, &[], &tag);
    assert!(ra.is_ok() == va);
    assert!(spy().last.nonce == rfc::compute_nonce::<12>(&na, sa));
    assert!(b.verif_seq_state() == (sb, false), "an open on A moved B");
    let vb: bool = kani::any();
    spy().dec_ok = vb;
    let rb = b.open_in_place_detached(&mut buf, &[], &tag);
    assert!(rb.is_ok() == vb);
    assert!(spy().last.nonce == rfc::compute_nonce::<12>(&nb, sb), "B's nonce depends on A's history");
    assert!(spy().last.key[..16] == kb[..]);
    let ea = if va && sa != u64::MAX { sa + 1 } else { sa };
    assert!(a.verif_seq_state().0 == ea);
}

// ---- L4: the same lemmas with EVERY mutable static starting from an arbitrary value ----------------
// (CBMC --nondet-static).  hpke has no mutable statics, so on the real tree this changes nothing; a
// hidden global cache, counter or memo (whatever its period or key) starts in an arbitrary state, i.e.
// after an arbitrary earlier history of library calls in this process, and a result that depends on it
// differs from the RFC function of the explicit arguments.  The counterexample is a valuation of
// static state; Kani's playback cannot set statics, so these entries are `replay=log` (the CBMC log with
// the failing checks is the artefact) - a native demonstration would need the call history that leads
// to that state (65 536 contexts for the round-3 seed).
//@h name=c18_l4_static_sender fn=c18_l1_sender_after_sender cbmc=--nondet-static replay=log tier=quick mode=func timeout=2400 desc="c18_l1_sender_after_sender with every mutable static of the program (hpke, dependencies, models) initialised to an ARBITRARY value: sender setup still draws exactly Nsk RNG bytes and yields the RFC 9180 enc / key / nonce / exporter secret of its own arguments" bounds="as c18_l1_sender_after_sender, plus all statics nondeterministic"
//@h name=c18_l4_static_receiver fn=c18_l1_receiver_after_ops cbmc=--nondet-static replay=log tier=quick mode=func timeout=2400 desc="c18_l1_receiver_after_ops (receiver setup, opens, export) under arbitrary initial statics" bounds="as c18_l1_receiver_after_ops, plus all statics nondeterministic"
//@h name=c18_l4_static_export fn=c18_l2_export_two_contexts cbmc=--nondet-static replay=log tier=quick mode=func also=C11 timeout=1200 desc="c18_l2_export_two_contexts under arbitrary initial statics: a global export cache or memo in ANY state cannot change an exported value" bounds="as c18_l2_export_two_contexts, plus all statics nondeterministic"
//@h name=c18_l4_static_seal fn=c18_l2_contexts_independent cbmc=--nondet-static replay=log tier=quick mode=func timeout=2400 desc="c18_l2_contexts_independent (seal on coexisting contexts) under arbitrary initial statics" bounds="as c18_l2_contexts_independent, plus all statics nondeterministic"
//@h name=c18_l4_static_open fn=c18_l2_receivers_independent cbmc=--nondet-static replay=log tier=quick mode=func timeout=1200 desc="c18_l2_receivers_independent (open on coexisting contexts) under arbitrary initial statics" bounds="as c18_l2_receivers_independent, plus all statics nondeterministic"
