//! C13 - no panic on attacker-controlled input (DESIGN.md section 2, C13).  All default Kani
//! checks stay ON in this file (bounds, overflow, pointer validity, unwinding, unwrap/expect,
//! unreachable).  The deserialisers are covered by the c12_* / c09_* harnesses that also run in
//! `full` mode; open()/open_in_place_detached by c05_l1_open_alloc_step.
use crate::c03::enc_from;
use crate::models::*;
use crate::util::*;
use hpke::aead::AeadTag;
use hpke::kem::{Kem as KemTrait, ToyKemLin};
use hpke::verif_hooks::*;
use hpke::verif_model::{LinKdf, XorPrivateKey, XorPublicKey};
use hpke::{
    setup_receiver, setup_sender, single_shot_open, single_shot_open_in_place_detached, Deserializable, HpkeError, OpModeR, OpModeS,
    PskBundle, Serializable,
};

type K = LinKdf;
type M = ToyKemLin;
const L: usize = 5;

macro_rules! setup_receiver_nopanic {
    ($name:ident, $mode:expr) => {
        #[kani::proof]
        #[kani::unwind(20)]
        #[kani::stub(zeroize::optimization_barrier, noop_barrier)]
        #[kani::stub(hkdf::HkdfExtract::new, crate::fasthkdf::stub_extract_new)]
        #[kani::stub(hkdf::HkdfExtract::input_ikm, crate::fasthkdf::stub_input_ikm)]
        #[kani::stub(hkdf::HkdfExtract::finalize, crate::fasthkdf::stub_finalize)]
        #[kani::stub(hkdf::Hkdf::from_prk, crate::fasthkdf::stub_from_prk)]
        #[kani::stub(hkdf::Hkdf::expand_multi_info, crate::fasthkdf::stub_expand_multi_info)]
        pub fn $name() {
            const MODE: u8 = $mode;
            let sk_r: u16 = kani::any();
            let enc: u16 = kani::any();
            let pk_s: u16 = kani::any();
            let info: [u8; L] = kani::any();
            let il = any_len(L);
            let psk: [u8; L] = kani::any();
            let pl = any_len(L);
            let pid: [u8; L] = kani::any();
            let dl = any_len(L);
            // any bundle the constructor lets through (including the empty one)
            let bundle = match PskBundle::new(&psk[..pl], &pid[..dl]) {
                Ok(b) => b,
                Err(e) => {
                    assert!(e == HpkeError::InvalidPskBundle);
                    return;
                }
            };
            let mode = match MODE {
                0 => OpModeR::<M>::Base,
                1 => OpModeR::Psk(bundle),
                2 => OpModeR::Auth(XorPublicKey(pk_s)),
                _ => OpModeR::AuthPsk(XorPublicKey(pk_s), bundle),
            };
            match setup_receiver::<SpyAead16, K, M>(&mode, &XorPrivateKey(sk_r), &enc_from(enc), &info[..il]) {
                Ok(ctx) => {
                    // exporter context of any length, export lengths around a block
                    let xc: [u8; L] = kani::any();
                    let xl = any_len(L);
                    let mut out = [0u8; 9];
                    let ol = any_len(9);
                    assert!(ctx.export(&xc[..xl], &mut out[..ol]).is_ok());
                }
                Err(e) => assert!(e == HpkeError::DecapError, "receiver setup may only fail with DecapError"),
            }
            kani::cover!(il == L, "longest info");
        }
    };
}
//@h name=c13_setup_receiver_base tier=quick mode=full timeout=1800 desc="setup_receiver (Base) + export on attacker-chosen enc/info/exporter-context of symbolic length: no panic, overflow or out-of-bounds access; the only possible error is DecapError" bounds="all skR, enc; info, exporter context 0..=5 B; export length 0..=9; model suite; ALL default Kani checks; unwind 20"
setup_receiver_nopanic!(c13_setup_receiver_base, 0);
//@h name=c13_setup_receiver_authpsk tier=quick mode=full timeout=1800 desc="same in AuthPsk mode with attacker-influenced sender key, psk and psk_id of symbolic length (any bundle PskBundle::new accepts, including the empty one)" bounds="as Base plus pkS, psk/psk_id 0..=5 B"
setup_receiver_nopanic!(c13_setup_receiver_authpsk, 3);
//@h name=c13_setup_receiver_psk tier=thorough mode=full timeout=1800 desc="same in Psk mode" bounds="as Base plus psk/psk_id 0..=5 B"
setup_receiver_nopanic!(c13_setup_receiver_psk, 1);
//@h name=c13_setup_receiver_auth tier=thorough mode=full timeout=1800 desc="same in Auth mode" bounds="as Base plus pkS"
setup_receiver_nopanic!(c13_setup_receiver_auth, 2);

//@h name=c13_setup_sender_authpsk tier=quick mode=full timeout=1800 desc="setup_sender (AuthPsk, the mode with every input) on a recipient key, info, psk, psk_id of symbolic length and arbitrary RNG output: no panic; the only possible error is EncapError" bounds="all RNG outputs, pkR, skS; info/psk/psk_id 0..=5 B; ALL default checks; unwind 20"
#[kani::proof]
#[kani::unwind(20)]
#[kani::stub(zeroize::optimization_barrier, noop_barrier)]
#[kani::stub(hkdf::HkdfExtract::new, crate::fasthkdf::stub_extract_new)]
#[kani::stub(hkdf::HkdfExtract::input_ikm, crate::fasthkdf::stub_input_ikm)]
#[kani::stub(hkdf::HkdfExtract::finalize, crate::fasthkdf::stub_finalize)]
#[kani::stub(hkdf::Hkdf::from_prk, crate::fasthkdf::stub_from_prk)]
#[kani::stub(hkdf::Hkdf::expand_multi_info, crate::fasthkdf::stub_expand_multi_info)]
pub fn c13_setup_sender_authpsk() {
    let bytes: [u8; RNG_CAP] = kani::any();
    let mut rng = ScriptRng::new(bytes);
    let pk_r: u16 = kani::any();
    let sk_s: u16 = kani::any();
    let info: [u8; L] = kani::any();
    let il = any_len(L);
    let psk: [u8; L] = kani::any();
    let pl = any_len(L);
    let pid: [u8; L] = kani::any();
    let dl = any_len(L);
    let bundle = match PskBundle::new(&psk[..pl], &pid[..dl]) {
        Ok(b) => b,
        Err(_) => return,
    };
    let sks = XorPrivateKey(sk_s);
    let pks = M::sk_to_pk(&sks);
    let mode = OpModeS::<M>::AuthPsk((sks, pks), bundle);
    match setup_sender::<SpyAead16, K, M, _>(&mode, &XorPublicKey(pk_r), &info[..il], &mut rng) {
        Ok(_) => {}
        Err(e) => assert!(e == HpkeError::EncapError, "sender setup may only fail with EncapError"),
    }
}

/// single_shot_open on attacker bytes: concrete wire lengths around the tag length
macro_rules! single_shot_open_nopanic {
    ($name:ident, $wire:expr) => {
        #[kani::proof]
        #[kani::unwind(20)]
        #[kani::stub(zeroize::optimization_barrier, noop_barrier)]
        #[kani::stub(hkdf::HkdfExtract::new, crate::fasthkdf::stub_extract_new)]
        #[kani::stub(hkdf::HkdfExtract::input_ikm, crate::fasthkdf::stub_input_ikm)]
        #[kani::stub(hkdf::HkdfExtract::finalize, crate::fasthkdf::stub_finalize)]
        #[kani::stub(hkdf::Hkdf::from_prk, crate::fasthkdf::stub_from_prk)]
        #[kani::stub(hkdf::Hkdf::expand_multi_info, crate::fasthkdf::stub_expand_multi_info)]
        pub fn $name() {
            const W: usize = $wire;
            let sk_r: u16 = kani::any();
            let enc: u16 = kani::any();
            let wire: [u8; W] = kani::any();
            let aad: [u8; 3] = kani::any();
            let al = any_len(3);
            let info: [u8; 3] = kani::any();
            let il = any_len(3);
            spy().dec_ok = kani::any();
            match single_shot_open::<SpyAead16, K, M>(&OpModeR::Base, &XorPrivateKey(sk_r), &enc_from(enc), &info[..il], &wire, &aad[..al]) {
                Ok(pt) => assert!(W >= 16 && pt.len() == W - 16),
                Err(e) => assert!(e == HpkeError::DecapError || e == HpkeError::OpenError),
            }
        }
    };
}
//@h name=c13_single_shot_open_w0 tier=quick mode=full timeout=1200 desc="single_shot_open on an empty ciphertext: value or DecapError/OpenError, never a panic" bounds="all skR, enc; wire length 0; info/aad 0..=3 B; arbitrary AEAD verdict; ALL default checks"
single_shot_open_nopanic!(c13_single_shot_open_w0, 0);
//@h name=c13_single_shot_open_w15 tier=quick mode=full timeout=1200 desc="same, 15-byte ciphertext (tag length - 1)" bounds="wire length 15, contents symbolic"
single_shot_open_nopanic!(c13_single_shot_open_w15, 15);
//@h name=c13_single_shot_open_w16 tier=quick mode=full timeout=1200 desc="same, 16-byte ciphertext (exactly a tag)" bounds="wire length 16"
single_shot_open_nopanic!(c13_single_shot_open_w16, 16);
//@h name=c13_single_shot_open_w33 tier=thorough mode=full timeout=1200 desc="same, 33-byte ciphertext (one byte over a 16-byte block + tag)" bounds="wire length 33"
single_shot_open_nopanic!(c13_single_shot_open_w33, 33);

//@h name=c13_write_to_buf_capacity tier=quick mode=full timeout=600 desc="the fixed-capacity concatenation helper never writes out of bounds: write_to_buf panics only if an input is longer than the remaining slot, and the real sizes fit (Npk, Ndh <= MAX_PUBKEY_SIZE = 133, Nh <= MAX_DIGEST_SIZE = 64), so no attacker-controlled length ever reaches it" bounds="slot 0..=8, input 0..=8 symbolic; capacity constants compared with the real type sizes"
#[kani::proof]
#[kani::unwind(12)]
pub fn c13_write_to_buf_capacity() {
    use hpke::kem::{DhP256HkdfSha256, DhP384HkdfSha384, DhP521HkdfSha512, X25519HkdfSha256};
    let mut buf = [0u8; 8];
    let src: [u8; 8] = kani::any();
    let cap = any_len(8);
    let n = any_len(8);
    if n <= cap {
        let rest = write_to_buf(&mut buf[..cap], &src[..n]);
        assert!(rest.len() == cap - n);
        assert!(eq_bytes(&buf[..n], &src[..n]));
    }
    assert!(MAX_PUBKEY_SIZE == 133 && MAX_DIGEST_SIZE == 64);
    assert!(<<X25519HkdfSha256 as KemTrait>::PublicKey as Serializable>::size() <= MAX_PUBKEY_SIZE);
    assert!(<<DhP256HkdfSha256 as KemTrait>::PublicKey as Serializable>::size() <= MAX_PUBKEY_SIZE);
    assert!(<<DhP384HkdfSha384 as KemTrait>::PublicKey as Serializable>::size() <= MAX_PUBKEY_SIZE);
    assert!(<<DhP521HkdfSha512 as KemTrait>::PublicKey as Serializable>::size() <= MAX_PUBKEY_SIZE);
}
