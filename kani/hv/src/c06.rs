//! C06 - integrity (DESIGN.md section 2, C06)
use crate::models::*;
use crate::rfc9180 as rfc;
use crate::util::*;
use hpke::aead::AeadTag;
use hpke::verif_hooks::*;
use hpke::{Deserializable, HpkeError, Serializable};

type K = hpke::verif_model::LinKdf;
type M = hpke::kem::ToyKemLin;
type AI = IdealAead;

// L1 (what reaches the AEAD on open / open_in_place_detached) is decided by c05_l1_*; L2 (seal output
// layout) by c04_l1_seal_alloc_step.  This file holds the end-to-end lemma L3 on the allocating API.

const PT: usize = 3;
const AD: usize = 2;

/// plaintext length concrete per harness (Vec of symbolic size is out of reach), everything else symbolic
macro_rules! alloc_tamper_harness {
    ($name:ident, $len:expr) => {
        #[kani::proof]
        #[kani::unwind(20)]
        #[kani::stub(zeroize::optimization_barrier, noop_barrier)]
        pub fn $name() {
            const LEN: usize = $len;
            const N: usize = LEN + 16;
            let key: [u8; 16] = kani::any();
            let base: [u8; 12] = kani::any();
            let exp: [u8; 8] = kani::any();
            let seq: u64 = kani::any();
            kani::assume(seq < u64::MAX);
            let mut s = ctx_s_from_parts::<AI, K, M>(&key, &base, &exp, seq, false);
            let mut r = ctx_r_from_parts::<AI, K, M>(&key, &base, &exp, seq, false);
            let pt: [u8; LEN] = kani::any();
            let aad: [u8; AD] = kani::any();
            let alen = any_len(AD);
            kani::assume(alen >= 1);
            let ct = s.seal(&pt, &aad[..alen]).unwrap();
            assert!(ct.len() == N);
            let mut wire = [0u8; N + 2];
            let mut i = 0;
            while i < N {
                wire[i] = ct[i];
                i += 1;
            }
            let pos: usize = kani::any();
            let bit: u8 = kani::any();
            kani::assume(bit < 8);
            // (a) one flipped bit anywhere in ciphertext || tag
            {
                kani::assume(pos < N);
                let mut w = wire;
                w[pos] ^= 1 << bit;
                assert!(matches!(r.open(&w[..N], &aad[..alen]), Err(HpkeError::OpenError)));
            }
            // (b) one flipped bit in the aad
            {
                let apos: usize = kani::any();
                kani::assume(apos < alen);
                let mut a = aad;
                a[apos] ^= 1 << bit;
                assert!(matches!(r.open(&wire[..N], &a[..alen]), Err(HpkeError::OpenError)));
            }
            assert!(r.verif_seq_state() == (seq, false));
            kani::cover!(pos == N - 1, "flip in the last tag byte");
            kani::cover!(pos == 0, "flip in the first byte");
        }
    };
}
//@h name=c06_l3_alloc_flip_len0 tier=quick mode=func timeout=1800 desc="allocating API, ideal AEAD, empty plaintext: the sealed message with one bit flipped at any position of the tag, or one aad bit flipped, is rejected by open() with OpenError and the receiver position is unchanged" bounds="key, base nonce, seq symbolic; plaintext length 0; aad 1..=2 B; flip position symbolic over all bits; unwind 20"
alloc_tamper_harness!(c06_l3_alloc_flip_len0, 0);
//@h name=c06_l3_alloc_flip_len3 tier=quick mode=func timeout=1800 desc="same for a 3-byte plaintext: any single-bit flip in ciphertext||tag or aad => OpenError" bounds="plaintext length 3 (contents symbolic); otherwise as len0"
alloc_tamper_harness!(c06_l3_alloc_flip_len3, 3);

/// truncation / extension: the wire length is concrete per harness
macro_rules! alloc_resize_harness {
    ($name:ident, $len:expr, $wire:expr) => {
        #[kani::proof]
        #[kani::unwind(20)]
        #[kani::stub(zeroize::optimization_barrier, noop_barrier)]
        pub fn $name() {
            const LEN: usize = $len;
            const N: usize = LEN + 16;
            const W: usize = $wire; // delivered length, != N
            let key: [u8; 16] = kani::any();
            let base: [u8; 12] = kani::any();
            let exp: [u8; 8] = kani::any();
            let seq: u64 = kani::any();
            kani::assume(seq < u64::MAX);
            let mut s = ctx_s_from_parts::<AI, K, M>(&key, &base, &exp, seq, false);
            let mut r = ctx_r_from_parts::<AI, K, M>(&key, &base, &exp, seq, false);
            let pt: [u8; LEN] = kani::any();
            let aad: [u8; AD] = kani::any();
            let alen = any_len(AD);
            let ct = s.seal(&pt, &aad[..alen]).unwrap();
            let mut wire: [u8; N + 2] = kani::any(); // bytes past N: arbitrary appended bytes
            let mut i = 0;
            while i < N {
                wire[i] = ct[i];
                i += 1;
            }
            let res = r.open(&wire[..W], &aad[..alen]);
            assert!(matches!(res, Err(HpkeError::OpenError)), "a truncated/extended message must be rejected with OpenError");
            assert!(r.verif_seq_state() == (seq, false));
            assert!(r.open(&wire[..N], &aad[..alen]).is_ok());
        }
    };
}
//@h name=c06_l3_alloc_trunc_0_15 tier=quick mode=func timeout=1200 desc="empty plaintext sealed (16-byte wire form); delivering only its first 15 bytes to open() => OpenError, position unchanged, and the full message still opens afterwards" bounds="state symbolic; wire 16 -> 15 bytes; aad 0..=2 B; ideal AEAD"
alloc_resize_harness!(c06_l3_alloc_trunc_0_15, 0, 15);
//@h name=c06_l3_alloc_trunc_0_0 tier=quick mode=func timeout=1200 desc="same, truncated to the empty string" bounds="wire 16 -> 0 bytes"
alloc_resize_harness!(c06_l3_alloc_trunc_0_0, 0, 0);
//@h name=c06_l3_alloc_ext_0_17 tier=quick mode=func timeout=1200 desc="same, one arbitrary byte appended" bounds="wire 16 -> 17 bytes, appended byte symbolic"
alloc_resize_harness!(c06_l3_alloc_ext_0_17, 0, 17);
//@h name=c06_l3_alloc_trunc_3_18 tier=quick mode=func timeout=1200 desc="3-byte plaintext (19-byte wire form) with the last byte removed => OpenError" bounds="wire 19 -> 18 bytes"
alloc_resize_harness!(c06_l3_alloc_trunc_3_18, 3, 18);
//@h name=c06_l3_alloc_trunc_3_16 tier=thorough mode=func timeout=1200 desc="3-byte plaintext with 3 bytes removed (exactly a tag length left) => OpenError" bounds="wire 19 -> 16 bytes"
alloc_resize_harness!(c06_l3_alloc_trunc_3_16, 3, 16);
//@h name=c06_l3_alloc_trunc_3_2 tier=thorough mode=func timeout=1200 desc="3-byte plaintext truncated below a tag length => OpenError" bounds="wire 19 -> 2 bytes"
alloc_resize_harness!(c06_l3_alloc_trunc_3_2, 3, 2);
//@h name=c06_l3_alloc_ext_3_21 tier=thorough mode=func timeout=1200 desc="3-byte plaintext with two arbitrary bytes appended => OpenError" bounds="wire 19 -> 21 bytes"
alloc_resize_harness!(c06_l3_alloc_ext_3_21, 3, 21);

//@h name=c06_l3_cross_substitution tier=quick mode=func timeout=1800 desc="two messages sealed by the same sender: presenting message 0's ciphertext with message 1's tag, or with message 1's aad, or message 1's ciphertext with message 0's tag, at position 0 is rejected with OpenError unless the substituted component is byte-identical" bounds="key, base nonce, seq symbolic; plaintexts 0..=3 B, aads 0..=2 B; in-place detached API; ideal AEAD; unwind 20"
#[kani::proof]
#[kani::unwind(20)]
#[kani::stub(zeroize::optimization_barrier, noop_barrier)]
pub fn c06_l3_cross_substitution() {
    let key: [u8; 16] = kani::any();
    let base: [u8; 12] = kani::any();
    let exp: [u8; 8] = kani::any();
    let seq: u64 = kani::any();
    kani::assume(seq < u64::MAX - 1);
    let mut s = ctx_s_from_parts::<AI, K, M>(&key, &base, &exp, seq, false);
    let mut r = ctx_r_from_parts::<AI, K, M>(&key, &base, &exp, seq, false);
    let p0: [u8; PT] = kani::any();
    let l0 = any_len(PT);
    let a0: [u8; AD] = kani::any();
    let al0 = any_len(AD);
    let p1: [u8; PT] = kani::any();
    let l1 = any_len(PT);
    let a1: [u8; AD] = kani::any();
    let al1 = any_len(AD);
    let mut c0 = p0;
    let t0 = s.seal_in_place_detached(&mut c0[..l0], &a0[..al0]).unwrap();
    let mut c1 = p1;
    let t1 = s.seal_in_place_detached(&mut c1[..l1], &a1[..al1]).unwrap();
    // ct0 with tag1
    if t0.to_bytes() != t1.to_bytes() {
        let mut b = c0;
        assert!(matches!(r.open_in_place_detached(&mut b[..l0], &a0[..al0], &t1), Err(HpkeError::OpenError)));
    }
    // ct0 with aad1
    if !(al0 == al1 && eq_bytes(&a0[..al0], &a1[..al1])) {
        let mut b = c0;
        assert!(matches!(r.open_in_place_detached(&mut b[..l0], &a1[..al1], &t0), Err(HpkeError::OpenError)));
    }
    // ct1 with tag0 (and aad0)
    if !(l0 == l1 && eq_bytes(&c0[..l0], &c1[..l1])) {
        let mut b = c1;
        assert!(matches!(r.open_in_place_detached(&mut b[..l1], &a0[..al0], &t0), Err(HpkeError::OpenError)));
    }
    assert!(r.verif_seq_state() == (seq, false));
    let mut b = c0;
    assert!(r.open_in_place_detached(&mut b[..l0], &a0[..al0], &t0).is_ok());
    assert!(b == p0);
}

//@h name=c06_l4_tag_extension tier=quick mode=full also=C12,C13 timeout=600 desc="a detached tag with bytes removed or appended cannot even be presented to the in-place opening interfaces: AeadTag::from_bytes of anything but exactly 16 bytes is rejected (model AEAD tag type, same generic code as the real ones), so an extended tag never reaches open_in_place_detached" bounds="length 0..=34 symbolic (!= 16), contents symbolic; all default checks"
#[kani::proof]
#[kani::unwind(4)]
pub fn c06_l4_tag_extension() {
    let b: [u8; 34] = kani::any();
    let n = any_len(34);
    kani::assume(n != 16);
    match AeadTag::<AI>::from_bytes(&b[..n]) {
        Err(HpkeError::IncorrectInputLength(e, g)) => assert!(e == 16 && g == n),
        _ => assert!(false, "a tag of the wrong length was accepted"),
    }
    kani::cover!(n == 17, "one byte appended");
    kani::cover!(n == 15, "one byte removed");
}
