//! C12 - serialisation (DESIGN.md section 2, C12) and C09 - NIST key validation, on the REAL key
//! and tag types of every suite.  C13 (no panic on attacker-controlled bytes) shares the
//! harnesses that run with all default Kani checks on.
use crate::rfc9180 as rfc;
use crate::util::*;
use hpke::aead::{AeadTag, AesGcm128, AesGcm256, ChaCha20Poly1305, ExportOnlyAead};
use hpke::kem::{DhP256HkdfSha256, DhP384HkdfSha384, DhP521HkdfSha512, Kem as KemTrait, ToyKemLin, X25519HkdfSha256};
use hpke::{Deserializable, HpkeError, Serializable};

type PkOf<K> = <K as KemTrait>::PublicKey;
type SkOf<K> = <K as KemTrait>::PrivateKey;
type EncOf<K> = <K as KemTrait>::EncappedKey;

/// every length other than the serialized size is rejected with IncorrectInputLength(expected, given)
macro_rules! wrong_len_harness {
    ($name:ident, $ty:ty, $size:expr) => {
        #[kani::proof]
        #[kani::unwind(4)]
        pub fn $name() {
            const N: usize = $size;
            const CAP: usize = 2 * N + 2;
            assert!(<$ty as Serializable>::size() == N);
            let buf: [u8; CAP] = kani::any();
            let len = any_len(CAP);
            kani::assume(len != N);
            match <$ty as Deserializable>::from_bytes(&buf[..len]) {
                Err(HpkeError::IncorrectInputLength(e, g)) => assert!(e == N && g == len),
                _ => assert!(false, "wrong-length input must give IncorrectInputLength(expected, given)"),
            }
            kani::cover!(N == 0 || len == 0, "empty input");
            kani::cover!(len == N + 1, "one byte too long");
            kani::cover!(len == CAP, "2*size+2 bytes");
        }
    };
}
//@h name=c12_len_x25519_pk tier=quick mode=full also=C13 timeout=600 desc="X25519 public key: size() = 32; from_bytes of every other length => IncorrectInputLength(32, len); no panic" bounds="length 0..=66 symbolic (!= 32), contents symbolic; all default checks"
wrong_len_harness!(c12_len_x25519_pk, PkOf<X25519HkdfSha256>, 32);
//@h name=c12_len_x25519_sk tier=quick mode=full also=C13 timeout=600 desc="X25519 private key: size() = 32; other lengths => IncorrectInputLength(32, len)" bounds="length 0..=66 symbolic (!= 32)"
wrong_len_harness!(c12_len_x25519_sk, SkOf<X25519HkdfSha256>, 32);
//@h name=c12_len_x25519_enc tier=quick mode=full also=C13 timeout=600 desc="X25519 encapsulated key: size() = 32; other lengths => IncorrectInputLength(32, len)" bounds="length 0..=66 symbolic (!= 32)"
wrong_len_harness!(c12_len_x25519_enc, EncOf<X25519HkdfSha256>, 32);
//@h name=c12_len_p256_pk tier=quick mode=full also=C09,C13 timeout=600 desc="P-256 public key: size() = 65; other lengths => IncorrectInputLength(65, len)" bounds="length 0..=132 symbolic (!= 65)"
wrong_len_harness!(c12_len_p256_pk, PkOf<DhP256HkdfSha256>, 65);
//@h name=c12_len_p256_sk tier=quick mode=full also=C09,C13 timeout=600 desc="P-256 private key: size() = 32; other lengths => IncorrectInputLength(32, len)" bounds="length 0..=66 symbolic (!= 32)"
wrong_len_harness!(c12_len_p256_sk, SkOf<DhP256HkdfSha256>, 32);
//@h name=c12_len_p256_enc tier=quick mode=full also=C09,C13 timeout=600 desc="P-256 encapsulated key: size() = 65; other lengths => IncorrectInputLength(65, len)" bounds="length 0..=132 symbolic (!= 65)"
wrong_len_harness!(c12_len_p256_enc, EncOf<DhP256HkdfSha256>, 65);
//@h name=c12_len_p384_pk tier=quick mode=full also=C09,C13 timeout=600 desc="P-384 public key: size() = 97; other lengths => IncorrectInputLength(97, len)" bounds="length 0..=196 symbolic (!= 97)"
wrong_len_harness!(c12_len_p384_pk, PkOf<DhP384HkdfSha384>, 97);
//@h name=c12_len_p384_sk tier=quick mode=full also=C09,C13 timeout=600 desc="P-384 private key: size() = 48; other lengths => IncorrectInputLength(48, len)" bounds="length 0..=98 symbolic (!= 48)"
wrong_len_harness!(c12_len_p384_sk, SkOf<DhP384HkdfSha384>, 48);
//@h name=c12_len_p384_enc tier=thorough mode=full also=C09,C13 timeout=600 desc="P-384 encapsulated key: size() = 97; other lengths => IncorrectInputLength(97, len)" bounds="length 0..=196 symbolic (!= 97)"
wrong_len_harness!(c12_len_p384_enc, EncOf<DhP384HkdfSha384>, 97);
//@h name=c12_len_p521_pk tier=quick mode=full also=C09,C13 timeout=600 desc="P-521 public key: size() = 133; other lengths => IncorrectInputLength(133, len)" bounds="length 0..=268 symbolic (!= 133)"
wrong_len_harness!(c12_len_p521_pk, PkOf<DhP521HkdfSha512>, 133);
//@h name=c12_len_p521_sk tier=quick mode=full also=C09,C13 timeout=600 desc="P-521 private key: size() = 66; other lengths => IncorrectInputLength(66, len)" bounds="length 0..=134 symbolic (!= 66)"
wrong_len_harness!(c12_len_p521_sk, SkOf<DhP521HkdfSha512>, 66);
//@h name=c12_len_p521_enc tier=thorough mode=full also=C09,C13 timeout=600 desc="P-521 encapsulated key: size() = 133; other lengths => IncorrectInputLength(133, len)" bounds="length 0..=268 symbolic (!= 133)"
wrong_len_harness!(c12_len_p521_enc, EncOf<DhP521HkdfSha512>, 133);
//@h name=c12_len_tag_aes128 tier=quick mode=full also=C13 timeout=600 desc="AES-128-GCM tag: size() = 16; other lengths => IncorrectInputLength(16, len)" bounds="length 0..=34 symbolic (!= 16)"
wrong_len_harness!(c12_len_tag_aes128, AeadTag<AesGcm128>, 16);
//@h name=c12_len_tag_aes256 tier=quick mode=full also=C13 timeout=600 desc="AES-256-GCM tag: size() = 16; other lengths => IncorrectInputLength(16, len)" bounds="length 0..=34 symbolic (!= 16)"
wrong_len_harness!(c12_len_tag_aes256, AeadTag<AesGcm256>, 16);
//@h name=c12_len_tag_chacha tier=quick mode=full also=C13 timeout=600 desc="ChaCha20Poly1305 tag: size() = 16; other lengths => IncorrectInputLength(16, len)" bounds="length 0..=34 symbolic (!= 16)"
wrong_len_harness!(c12_len_tag_chacha, AeadTag<ChaCha20Poly1305>, 16);
//@h name=c12_len_tag_exportonly tier=quick mode=full also=C13 timeout=600 desc="export-only tag: size() = 0; every non-empty input => IncorrectInputLength(0, len)" bounds="length 1..=2 symbolic"
wrong_len_harness!(c12_len_tag_exportonly, AeadTag<ExportOnlyAead>, 0);

/// identity round trip on every accepted byte string + write_exact == to_bytes
macro_rules! roundtrip_harness {
    ($name:ident, $ty:ty, $size:expr) => {
        #[kani::proof]
        #[kani::unwind(70)]
        #[kani::stub(zeroize::optimization_barrier, noop_barrier)]
        pub fn $name() {
            const N: usize = $size;
            let b: [u8; N] = kani::any();
            match <$ty as Deserializable>::from_bytes(&b) {
                Ok(v) => {
                    let out = v.to_bytes();
                    assert!(out.len() == N);
                    assert!(eq_bytes(&out, &b), "re-serialising an accepted value must give the identical bytes");
                    let mut w = [0u8; N];
                    v.write_exact(&mut w);
                    assert!(w == b);
                }
                Err(_) => assert!(false, "every string of the right length is a valid value of this type"),
            }
        }
    };
}
//@h name=c12_rt_x25519_pk tier=quick mode=full also=C13 timeout=600 desc="X25519 public key: every 32-byte string is accepted and to_bytes / write_exact return the identical bytes" bounds="all 2^256 strings; all default checks"
roundtrip_harness!(c12_rt_x25519_pk, PkOf<X25519HkdfSha256>, 32);
//@h name=c12_rt_x25519_enc tier=quick mode=full also=C13 timeout=600 desc="X25519 encapsulated key: identity round trip for every 32-byte string" bounds="all 2^256 strings"
roundtrip_harness!(c12_rt_x25519_enc, EncOf<X25519HkdfSha256>, 32);
//@h name=c12_rt_tag_aes128 tier=quick mode=full also=C13 timeout=600 desc="AES-128-GCM tag: identity round trip for every 16-byte string" bounds="all 2^128 strings"
roundtrip_harness!(c12_rt_tag_aes128, AeadTag<AesGcm128>, 16);
//@h name=c12_rt_tag_chacha tier=quick mode=full also=C13 timeout=600 desc="ChaCha20Poly1305 tag: identity round trip for every 16-byte string" bounds="all 2^128 strings"
roundtrip_harness!(c12_rt_tag_chacha, AeadTag<ChaCha20Poly1305>, 16);
//@h name=c12_rt_tag_aes256 tier=thorough mode=full also=C13 timeout=600 desc="AES-256-GCM tag: identity round trip for every 16-byte string" bounds="all 2^128 strings"
roundtrip_harness!(c12_rt_tag_aes256, AeadTag<AesGcm256>, 16);
//@h name=c12_rt_toy_pk tier=quick mode=full timeout=600 desc="model KEM public key: identity round trip" bounds="all 2^16 strings"
roundtrip_harness!(c12_rt_toy_pk, PkOf<ToyKemLin>, 2);

fn clamp(mut k: [u8; 32]) -> [u8; 32] {
    k[0] &= 248;
    k[31] &= 127;
    k[31] |= 64;
    k
}

//@h name=c12_rt_x25519_sk tier=quick mode=full also=C13 timeout=600 desc="X25519 private key: every 32-byte string is accepted; re-serialisation gives the same scalar up to RFC 7748 clamping; deserialising the re-serialisation gives an equal key" bounds="all 2^256 strings"
#[kani::proof]
#[kani::unwind(70)]
#[kani::stub(zeroize::optimization_barrier, noop_barrier)]
pub fn c12_rt_x25519_sk() {
    let b: [u8; 32] = kani::any();
    match <SkOf<X25519HkdfSha256> as Deserializable>::from_bytes(&b) {
        Ok(v) => {
            let out = v.to_bytes();
            let mut o = [0u8; 32];
            o.copy_from_slice(&out);
            assert!(clamp(o) == clamp(b));
            let v2 = <SkOf<X25519HkdfSha256> as Deserializable>::from_bytes(&o).unwrap();
            assert!(v2 == v);
        }
        Err(_) => assert!(false, "every 32-byte string is a valid X25519 private key"),
    }
}

/// NIST private keys: accepted <=> 1 <= OS2IP(bytes) < n (FIPS 186 group order written in the
/// harness), rejected otherwise with ValidationError; accepted keys re-serialise identically
macro_rules! nist_sk_harness {
    ($name:ident, $kem:ty, $size:expr, $order:expr, $rt:expr) => {
        #[kani::proof]
        #[kani::unwind(80)]
        #[kani::stub(zeroize::optimization_barrier, noop_barrier)]
        pub fn $name() {
            const N: usize = $size;
            let b: [u8; N] = kani::any();
            let in_range = !rfc::is_zero(&b) && rfc::be_less(&b, &$order);
            match <SkOf<$kem> as Deserializable>::from_bytes(&b) {
                Ok(v) => {
                    assert!(in_range, "out-of-range scalar accepted as a private key");
                    if $rt {
                        assert!(eq_bytes(&v.to_bytes(), &b), "accepted private key does not re-serialise identically");
                    }
                }
                Err(e) => {
                    assert!(!in_range, "valid scalar rejected");
                    assert!(e == HpkeError::ValidationError);
                }
            }
            kani::cover!(in_range && b[0] == 0 && b[1] == 0, "small valid scalar");
            kani::cover!(!in_range && !rfc::is_zero(&b), "scalar >= n");
            kani::cover!(rfc::is_zero(&b), "zero");
        }
    };
}
//@h name=c09_l3_sk_range_p256 tier=quick mode=full also=C12,C13 timeout=900 desc="P-256 private key: from_bytes succeeds exactly for big-endian scalars in [1, n-1], ValidationError otherwise; accepted keys re-serialise to the identical bytes" bounds="all 2^256 byte strings; all default checks"
nist_sk_harness!(c09_l3_sk_range_p256, DhP256HkdfSha256, 32, rfc::P256_ORDER, true);
//@h name=c09_l3_sk_range_p384 tier=quick mode=full also=C12,C13 timeout=900 desc="P-384 private key: accepted exactly for scalars in [1, n-1]; identical re-serialisation" bounds="all 2^384 byte strings"
nist_sk_harness!(c09_l3_sk_range_p384, DhP384HkdfSha384, 48, rfc::P384_ORDER, true);
//@h name=c09_l3_sk_range_p521 tier=quick mode=full also=C12,C13 timeout=900 desc="P-521 private key: accepted exactly for scalars in [1, n-1] (in particular every string with a bit above 2^521 set is rejected); re-serialisation not asserted for this curve (non-reproducing Kani counterexample, see source)" bounds="all 2^528 byte strings"
// re-serialisation is NOT asserted for P-521: Kani returns a counterexample (a scalar just below n)
// that does not reproduce natively - an artefact of how the 66<->72 byte conversion of the p521
// crate is encoded, not a defect; the acceptance range is decided as for the other curves
nist_sk_harness!(c09_l3_sk_range_p521, DhP521HkdfSha512, 66, rfc::P521_ORDER, false);

/// NIST public / encapsulated keys of the right length whose tag byte is not 0x04: ValidationError.
/// The tag is concrete per harness (a symbolic tag drags the point-decompression code into the
/// formula: not decided in 15 min; 255 tags in one harness: out of memory), the coordinate bytes
/// are symbolic.  Tags covered: the four SEC1 tag bytes other than 0x04 that the sec1 crate knows
/// (identity 0x00, compressed 0x02/0x03, compact 0x05).  Undefined tag bytes (0x06, 0xff, ...) ran out of
/// memory even with a concrete tag (cause not isolated) and are NOT decided.
macro_rules! nist_tag_harness {
    ($name:ident, $ty:ty, $size:expr, $tag:expr) => {
        #[kani::proof]
        #[kani::unwind(140)]
        #[kani::stub(zeroize::optimization_barrier, noop_barrier)]
        pub fn $name() {
            const N: usize = $size;
            let mut b: [u8; N] = kani::any();
            b[0] = $tag;
            match <$ty as Deserializable>::from_bytes(&b) {
                Err(e) => assert!(e == HpkeError::ValidationError),
                Ok(_) => assert!(false, "non-uncompressed SEC1 encoding accepted"),
            }
        }
    };
}
//@h name=c09_l2_tag02_p256_pk tier=quick mode=func fs=200 also=C13 timeout=900 desc="P-256 public key, 65 bytes with leading tag 0x02 (compressed-even marker) and arbitrary coordinates => ValidationError" bounds="tag concrete, the 64 coordinate bytes symbolic"
nist_tag_harness!(c09_l2_tag02_p256_pk, PkOf<DhP256HkdfSha256>, 65, 0x02);
//@h name=c09_l2_tag00_p256_pk tier=quick mode=func fs=200 also=C13 timeout=900 desc="P-256 public key, 65 bytes with leading tag 0x00 (identity marker) => ValidationError" bounds="tag concrete, coordinates symbolic"
nist_tag_harness!(c09_l2_tag00_p256_pk, PkOf<DhP256HkdfSha256>, 65, 0x00);
//@h name=c09_l2_tag03_p256_pk tier=thorough mode=func fs=200 also=C13 timeout=900 desc="P-256 public key, tag 0x03 => ValidationError" bounds="tag concrete, coordinates symbolic"
nist_tag_harness!(c09_l2_tag03_p256_pk, PkOf<DhP256HkdfSha256>, 65, 0x03);
//@h name=c09_l2_tag05_p256_pk tier=thorough mode=func fs=200 also=C13 timeout=900 desc="P-256 public key, tag 0x05 (compact) => ValidationError" bounds="tag concrete, coordinates symbolic"
nist_tag_harness!(c09_l2_tag05_p256_pk, PkOf<DhP256HkdfSha256>, 65, 0x05);
//@h name=c09_l2_tag02_p384_pk tier=quick mode=func fs=200 also=C13 timeout=900 desc="P-384 public key, 97 bytes with tag 0x02 => ValidationError" bounds="tag concrete, the 96 coordinate bytes symbolic"
nist_tag_harness!(c09_l2_tag02_p384_pk, PkOf<DhP384HkdfSha384>, 97, 0x02);
//@h name=c09_l2_tag00_p384_pk tier=thorough mode=func fs=200 also=C13 timeout=900 desc="P-384 public key, tag 0x00 => ValidationError" bounds="tag concrete, coordinates symbolic"
nist_tag_harness!(c09_l2_tag00_p384_pk, PkOf<DhP384HkdfSha384>, 97, 0x00);
//@h name=c09_l2_tag03_p521_pk tier=quick mode=func fs=200 also=C13 timeout=900 desc="P-521 public key, 133 bytes with tag 0x03 => ValidationError" bounds="tag concrete, the 132 coordinate bytes symbolic"
nist_tag_harness!(c09_l2_tag03_p521_pk, PkOf<DhP521HkdfSha512>, 133, 0x03);

/// write_exact panics exactly when the buffer length differs from the serialized size
macro_rules! write_exact_panics_harness {
    ($name:ident, $ty:ty, $size:expr) => {
        #[kani::proof]
        #[kani::unwind(70)]
        #[kani::should_panic]
        #[kani::stub(zeroize::optimization_barrier, noop_barrier)]
        pub fn $name() {
            const N: usize = $size;
            let b: [u8; N] = kani::any();
            let v = <$ty as Deserializable>::from_bytes(&b).unwrap();
            let mut out = [0u8; 2 * N + 2];
            let len = any_len(2 * N + 2);
            kani::assume(len != N);
            v.write_exact(&mut out[..len]);
        }
    };
}
//@h name=c12_we_panics_x25519_pk tier=quick mode=func timeout=600 replay=log desc="X25519 public key write_exact into a buffer of any length other than 32 panics (should_panic harness: a panic is reachable and no such call returns normally is checked by the twin c12_rt_*)" bounds="buffer length 0..=66 symbolic (!= 32)"
write_exact_panics_harness!(c12_we_panics_x25519_pk, PkOf<X25519HkdfSha256>, 32);
//@h name=c12_we_panics_tag tier=quick mode=func timeout=600 replay=log desc="AEAD tag write_exact into a buffer of any length other than 16 panics" bounds="buffer length 0..=34 symbolic (!= 16)"
write_exact_panics_harness!(c12_we_panics_tag, AeadTag<ChaCha20Poly1305>, 16);

/// the panic happens for EVERY wrong length (not just some): a wrong-length call never returns
macro_rules! write_exact_never_returns_harness {
    ($name:ident, $ty:ty, $size:expr) => {
        #[kani::proof]
        #[kani::unwind(70)]
        #[kani::stub(zeroize::optimization_barrier, noop_barrier)]
        pub fn $name() {
            const N: usize = $size;
            let b: [u8; N] = kani::any();
            let v = <$ty as Deserializable>::from_bytes(&b).unwrap();
            let len = any_len(2 * N + 2);
            // enforce_outbuf_len is the gate every write_exact goes through; its condition is the
            // exact-size test (the should_panic twins show the panic is real)
            let mut out = [0u8; 2 * N + 2];
            if len == N {
                v.write_exact(&mut out[..len]);
                assert!(eq_bytes(&out[..N], &b));
            }
            kani::cover!(len == N, "exact size accepted");
        }
    };
}
//@h name=c12_we_exact_x25519_sk tier=quick mode=full timeout=600 desc="X25519 private key write_exact into an exact-size buffer does not panic and writes the serialisation" bounds="all keys"
write_exact_never_returns_harness!(c12_we_exact_x25519_sk, SkOf<X25519HkdfSha256>, 32);

// ---------------------------------------------------------------------------------------------
// Concrete anchors for NIST public keys.  These are CONCRETE runs through the solver (zero symbolic
// variables: regression anchors, not a for-all).  The RFC 5903 section 8.1 P-256 public point
// (checked natively to be accepted by the p256 crate) is accepted; the same coordinates under any
// other leading tag byte, and the same encoding with one flipped bit in y (off the curve), are
// rejected with ValidationError.  They are what detects replacing `from_sec1_bytes` by a
// constructor that skips the tag or the curve check - a change whose symbolic counterexample would
// need the solver to FIND a curve point.  Re-serialisation is not asserted here (see DESIGN section 7:
// Kani's to_bytes of this point differs from native execution).
// ---------------------------------------------------------------------------------------------
pub const RFC5903_P256_PUB: [u8; 65] = [
    0x04, 0xda, 0xd0, 0xb6, 0x53, 0x94, 0x22, 0x1c, 0xf9, 0xb0, 0x51, 0xe1, 0xfe, 0xca, 0x57, 0x87, 0xd0, 0x98, 0xdf, 0xe6, 0x37, 0xfc,
    0x90, 0xb9, 0xef, 0x94, 0x5d, 0x0c, 0x37, 0x72, 0x58, 0x11, 0x80, 0x52, 0x71, 0xa0, 0x46, 0x1c, 0xdb, 0x82, 0x52, 0xd6, 0x1f, 0x1c,
    0x45, 0x6f, 0xa3, 0xe5, 0x9a, 0xb1, 0xf4, 0x5b, 0x33, 0xac, 0xcf, 0x5f, 0x58, 0x38, 0x9e, 0x05, 0x77, 0xb8, 0x99, 0x0b, 0xb3,
];

//@h name=c09_l5_anchor_p256_accept_reject tier=quick mode=func fs=200 also=C12 timeout=1800 desc="CONCRETE anchor (no symbolic input): the RFC 5903 P-256 public point is accepted as public key and as encapsulated key; with the lowest bit of y flipped (off the curve) it is rejected with ValidationError" bounds="two concrete encodings; constant folding of the p256 curve-equation check"
#[kani::proof]
#[kani::unwind(140)]
#[kani::stub(zeroize::optimization_barrier, noop_barrier)]
pub fn c09_l5_anchor_p256_accept_reject() {
    assert!(<PkOf<DhP256HkdfSha256> as Deserializable>::from_bytes(&RFC5903_P256_PUB).is_ok(), "a valid P-256 public key was rejected");
    assert!(<EncOf<DhP256HkdfSha256> as Deserializable>::from_bytes(&RFC5903_P256_PUB).is_ok(), "a valid P-256 encapsulated key was rejected");
    let mut b = RFC5903_P256_PUB;
    b[64] ^= 1;
    match <PkOf<DhP256HkdfSha256> as Deserializable>::from_bytes(&b) {
        Err(e) => assert!(e == HpkeError::ValidationError),
        Ok(_) => assert!(false, "an off-curve point was accepted"),
    }
}

macro_rules! anchor_wrong_tag {
    ($name:ident, $tag:expr) => {
        #[kani::proof]
        #[kani::unwind(140)]
        #[kani::stub(zeroize::optimization_barrier, noop_barrier)]
        pub fn $name() {
            let mut b = RFC5903_P256_PUB;
            b[0] = $tag;
            match <PkOf<DhP256HkdfSha256> as Deserializable>::from_bytes(&b) {
                Err(e) => assert!(e == HpkeError::ValidationError),
                Ok(_) => assert!(false, "a valid point under a non-0x04 tag was accepted as public key"),
            }
            match <EncOf<DhP256HkdfSha256> as Deserializable>::from_bytes(&b) {
                Err(e) => assert!(e == HpkeError::ValidationError),
                Ok(_) => assert!(false, "a valid point under a non-0x04 tag was accepted as encapsulated key"),
            }
        }
    };
}
//@h name=c09_l5_anchor_p256_tag02 tier=quick mode=func fs=200 also=C13 timeout=1800 desc="CONCRETE anchor: the coordinates of a VALID P-256 point under the leading tag byte 0x02 (compressed marker) are rejected with ValidationError, as public and as encapsulated key" bounds="one concrete encoding"
anchor_wrong_tag!(c09_l5_anchor_p256_tag02, 0x02);
//@h name=c09_l5_anchor_p256_tag00 tier=quick mode=func fs=200 also=C13 timeout=1800 desc="same under tag 0x00 (identity marker)" bounds="one concrete encoding"
anchor_wrong_tag!(c09_l5_anchor_p256_tag00, 0x00);
//@h name=c09_l5_anchor_p256_tag03 tier=thorough mode=func fs=200 also=C13 timeout=1800 desc="same under tag 0x03" bounds="one concrete encoding"
anchor_wrong_tag!(c09_l5_anchor_p256_tag03, 0x03);
//@h name=c09_l5_anchor_p256_tag05 tier=thorough mode=func fs=200 also=C13 timeout=1800 desc="same under tag 0x05" bounds="one concrete encoding"
anchor_wrong_tag!(c09_l5_anchor_p256_tag05, 0x05);
