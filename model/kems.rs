// DHKEM instantiations over the model group/KDFs, produced by the *real* `impl_dhkem!` macro
// (textually included at the end of src/kem/dhkem.rs under `--cfg hpke_verif`).
impl_dhkem!(
    toy_lin,
    ToyKemLin,
    crate::verif_model::XorDh,
    crate::verif_model::LinKdf,
    0x7a01,
    "Model DHKEM(XorDh, LinKdf) - verification only"
);
impl_dhkem!(
    toy_int,
    ToyKemInt,
    crate::verif_model::XorDh,
    crate::verif_model::InternKdf,
    0x7a01,
    "Model DHKEM(XorDh, InternKdf) - verification only"
);
impl_dhkem!(
    toy_int_b,
    ToyKemIntB,
    crate::verif_model::XorDh,
    crate::verif_model::InternKdf,
    0x7a02,
    "Model DHKEM(XorDh, InternKdf) with a different KEM id - verification only"
);
