// Model primitives that have to live *inside* the hpke crate (textually included by the
// `verif_model` hook under `--cfg hpke_verif`) because the `impl_dhkem!` macro and the
// `DhKeyExchange` trait are crate-private.  See DESIGN.md section 1.2 for the contract each model
// stands for.  Everything here is deliberately free of multiplication so that the SAT back end
// can prove equalities over it.

use crate::{
    dhkex::{DhError, DhKeyExchange},
    kdf::{labeled_extract, Kdf as KdfTrait, LabeledExpand},
    util::{enforce_equal_len, enforce_outbuf_len, KemSuiteId},
    Deserializable, HpkeError, Serializable,
};
use digest::{
    core_api::BlockSizeUser, FixedOutput, HashMarker, Output, OutputSizeUser, Reset, Update,
};
use generic_array::typenum::{U12, U2, U8};

// ---------------------------------------------------------------------------------------------
// LinHash: rotate/xor "hash", Nh = 8, block = 8.  Deterministic, order-, position- and
// length-sensitive.  Sound for equalities (equal inputs => equal outputs under any function).
// ---------------------------------------------------------------------------------------------

pub const LIN_SEED: u64 = 0x243f_6a88_85a3_08d3;
pub const LIN_K: u64 = 0x1319_8a2e_0370_7344;

#[derive(Clone)]
pub struct LinHash {
    pub acc: u64,
    pub len: u64,
}

impl Default for LinHash {
    fn default() -> Self {
        LinHash { acc: LIN_SEED, len: 0 }
    }
}
impl HashMarker for LinHash {}
impl OutputSizeUser for LinHash {
    type OutputSize = U8;
}
impl BlockSizeUser for LinHash {
    type BlockSize = U8;
}
impl Update for LinHash {
    fn update(&mut self, data: &[u8]) {
        for b in data {
            self.acc = self.acc.rotate_left(5) ^ (*b as u64) ^ LIN_K;
            self.len += 1;
        }
    }
}
impl FixedOutput for LinHash {
    fn finalize_into(self, out: &mut Output<Self>) {
        let v = self.acc ^ self.len.rotate_left(29);
        out.copy_from_slice(&v.to_be_bytes());
    }
}
impl Reset for LinHash {
    fn reset(&mut self) {
        *self = Default::default();
    }
}

/// HKDF over `LinHash`
pub struct LinKdf;
impl KdfTrait for LinKdf {
    type HashImpl = LinHash;
    const KDF_ID: u16 = 0x7101;
}
/// Same hash, different identifier (C07: suites that share every size)
pub struct LinKdfB;
impl KdfTrait for LinKdfB {
    type HashImpl = LinHash;
    const KDF_ID: u16 = 0x7102;
}

// ---------------------------------------------------------------------------------------------
// InternHash: an *injective* hash (symbolic model).  Every finalised message is looked up in a
// global table; the digest is the index of the first equal entry (appended if new).
// Equal digests <=> equal messages.  Nh = 12, block = 12.
// ---------------------------------------------------------------------------------------------

pub const INTERN_MSG_CAP: usize = 96;
pub const INTERN_TABLE_CAP: usize = 72;

#[derive(Clone, Copy)]
pub struct InternEntry {
    pub len: usize,
    pub bytes: [u8; INTERN_MSG_CAP],
}

pub struct InternTable {
    pub n: usize,
    pub entries: [InternEntry; INTERN_TABLE_CAP],
    /// set when a message or the table exceeded its capacity; harnesses assert it stays false
    pub overflow: bool,
}

pub static mut INTERN_TABLE: InternTable = InternTable {
    n: 0,
    entries: [InternEntry { len: 0, bytes: [0u8; INTERN_MSG_CAP] }; INTERN_TABLE_CAP],
    overflow: false,
};

pub fn intern_reset() {
    unsafe {
        let t = &mut *core::ptr::addr_of_mut!(INTERN_TABLE);
        t.n = 0;
        t.overflow = false;
    }
}
pub fn intern_overflowed() -> bool {
    unsafe { (*core::ptr::addr_of!(INTERN_TABLE)).overflow }
}
pub fn intern_count() -> usize {
    unsafe { (*core::ptr::addr_of!(INTERN_TABLE)).n }
}

#[derive(Clone)]
pub struct InternHash {
    pub len: usize,
    pub bytes: [u8; INTERN_MSG_CAP],
    pub too_long: bool,
}
impl Default for InternHash {
    fn default() -> Self {
        InternHash { len: 0, bytes: [0u8; INTERN_MSG_CAP], too_long: false }
    }
}
impl HashMarker for InternHash {}
impl OutputSizeUser for InternHash {
    type OutputSize = U12;
}
impl BlockSizeUser for InternHash {
    type BlockSize = U12;
}
impl Update for InternHash {
    fn update(&mut self, data: &[u8]) {
        for b in data {
            if self.len < INTERN_MSG_CAP {
                self.bytes[self.len] = *b;
                self.len += 1;
            } else {
                self.too_long = true;
            }
        }
    }
}
impl FixedOutput for InternHash {
    fn finalize_into(self, out: &mut Output<Self>) {
        let id: usize = unsafe {
            let t = &mut *core::ptr::addr_of_mut!(INTERN_TABLE);
            if self.too_long {
                t.overflow = true;
            }
            // always append (keeps the write index concrete), then id = first equal entry
            let slot = t.n;
            if slot < INTERN_TABLE_CAP {
                t.entries[slot].len = self.len;
                t.entries[slot].bytes = self.bytes;
                t.n = slot + 1;
            } else {
                t.overflow = true;
            }
            let mut found = slot;
            let mut i = 0;
            while i < slot && i < INTERN_TABLE_CAP {
                let e = &t.entries[i];
                if found == slot && e.len == self.len {
                    let mut eq = true;
                    let mut j = 0;
                    while j < INTERN_MSG_CAP {
                        // bytes past `len` are always zero in both, so a full compare is exact
                        if e.bytes[j] != self.bytes[j] {
                            eq = false;
                        }
                        j += 1;
                    }
                    if eq {
                        found = i;
                    }
                }
                i += 1;
            }
            found
        };
        // digest = a fixed pattern with the id spread over it (never all-zero, id recoverable)
        let idb = (id as u32 + 1).to_be_bytes();
        let pat = [
            0xA5, idb[0], idb[1], idb[2], idb[3], 0x5A, idb[3], idb[2], idb[1], idb[0], 0xC3, 0x3C,
        ];
        out.copy_from_slice(&pat);
    }
}
impl Reset for InternHash {
    fn reset(&mut self) {
        *self = Default::default();
    }
}

/// HKDF over `InternHash`
pub struct InternKdf;
impl KdfTrait for InternKdf {
    type HashImpl = InternHash;
    const KDF_ID: u16 = 0x7201;
}
/// Same hash, different identifier
pub struct InternKdfB;
impl KdfTrait for InternKdfB {
    type HashImpl = InternHash;
    const KDF_ID: u16 = 0x7202;
}

// ---------------------------------------------------------------------------------------------
// ConstHash: Nh = 2, constant output.  Only for the HKDF length limit (C11): 255 * Nh = 510.
// ---------------------------------------------------------------------------------------------

#[derive(Clone, Default)]
pub struct ConstHash;
impl HashMarker for ConstHash {}
impl OutputSizeUser for ConstHash {
    type OutputSize = U2;
}
impl BlockSizeUser for ConstHash {
    type BlockSize = U2;
}
impl Update for ConstHash {
    fn update(&mut self, _data: &[u8]) {}
}
impl FixedOutput for ConstHash {
    fn finalize_into(self, out: &mut Output<Self>) {
        out[0] = 0x17;
        out[1] = 0x71;
    }
}
pub struct ConstKdf;
impl KdfTrait for ConstKdf {
    type HashImpl = ConstHash;
    const KDF_ID: u16 = 0x7301;
}

// ---------------------------------------------------------------------------------------------
// XorDh: toy Diffie-Hellman "group" on 16-bit strings.
//   pk(a) = a ^ G,  dh(a, P) = a ^ P ^ G   =>   dh(a, pk(b)) = a ^ b = dh(b, pk(a))
// injective in each argument; fails (like X25519's all-zero check) iff the result is 0.
// ---------------------------------------------------------------------------------------------

pub const XOR_G: u16 = 0x9e37;

#[derive(Clone, Debug, PartialEq, Eq)]
pub struct XorPublicKey(pub u16);
#[derive(Clone, PartialEq, Eq)]
pub struct XorPrivateKey(pub u16);
pub struct XorKexResult(pub u16);

impl Serializable for XorPublicKey {
    type OutputSize = U2;
    fn write_exact(&self, buf: &mut [u8]) {
        enforce_outbuf_len::<Self>(buf);
        buf.copy_from_slice(&self.0.to_be_bytes());
    }
}
impl Deserializable for XorPublicKey {
    fn from_bytes(encoded: &[u8]) -> Result<Self, HpkeError> {
        enforce_equal_len(2, encoded.len())?;
        Ok(XorPublicKey(u16::from_be_bytes([encoded[0], encoded[1]])))
    }
}
impl Serializable for XorPrivateKey {
    type OutputSize = U2;
    fn write_exact(&self, buf: &mut [u8]) {
        enforce_outbuf_len::<Self>(buf);
        buf.copy_from_slice(&self.0.to_be_bytes());
    }
}
impl Deserializable for XorPrivateKey {
    fn from_bytes(encoded: &[u8]) -> Result<Self, HpkeError> {
        enforce_equal_len(2, encoded.len())?;
        Ok(XorPrivateKey(u16::from_be_bytes([encoded[0], encoded[1]])))
    }
}
impl Serializable for XorKexResult {
    type OutputSize = U2;
    fn write_exact(&self, buf: &mut [u8]) {
        enforce_outbuf_len::<Self>(buf);
        buf.copy_from_slice(&self.0.to_be_bytes());
    }
}

pub struct XorDh;
impl DhKeyExchange for XorDh {
    type PublicKey = XorPublicKey;
    type PrivateKey = XorPrivateKey;
    type KexResult = XorKexResult;

    fn sk_to_pk(sk: &XorPrivateKey) -> XorPublicKey {
        XorPublicKey(sk.0 ^ XOR_G)
    }
    fn dh(sk: &XorPrivateKey, pk: &XorPublicKey) -> Result<XorKexResult, DhError> {
        let r = sk.0 ^ pk.0 ^ XOR_G;
        if r == 0 {
            Err(DhError)
        } else {
            Ok(XorKexResult(r))
        }
    }
    // Same shape as the X25519 DeriveKeyPair of RFC 9180 section 7.1.3
    fn derive_keypair<Kdf: KdfTrait>(
        suite_id: &KemSuiteId,
        ikm: &[u8],
    ) -> (XorPrivateKey, XorPublicKey) {
        let (_, hkdf_ctx) = labeled_extract::<Kdf>(&[], suite_id, b"dkp_prk", ikm);
        let mut buf = [0u8; 2];
        hkdf_ctx.labeled_expand(suite_id, b"sk", &[], &mut buf).unwrap();
        let sk = XorPrivateKey(u16::from_be_bytes(buf));
        let pk = Self::sk_to_pk(&sk);
        (sk, pk)
    }
}

// ---------------------------------------------------------------------------------------------
// Wrappers for the crate-private `encap_with_eph` of the toy KEMs (instantiated in kems.rs by the
// real `impl_dhkem!` macro)
// ---------------------------------------------------------------------------------------------

macro_rules! toy_eph_wrapper {
    ($fn_name:ident, $module:ident, $kem:ident) => {
        pub fn $fn_name(
            pk_recip: &XorPublicKey,
            sender_id_keypair: Option<(&XorPrivateKey, &XorPublicKey)>,
            sk_eph: XorPrivateKey,
        ) -> Result<
            (
                crate::kem::SharedSecret<crate::kem::$kem>,
                <crate::kem::$kem as crate::kem::Kem>::EncappedKey,
            ),
            HpkeError,
        > {
            crate::kem::$module::encap_with_eph(pk_recip, sender_id_keypair, sk_eph)
        }
    };
}
toy_eph_wrapper!(toy_lin_encap_with_eph, toy_lin, ToyKemLin);
toy_eph_wrapper!(toy_int_encap_with_eph, toy_int, ToyKemInt);
toy_eph_wrapper!(toy_int_b_encap_with_eph, toy_int_b, ToyKemIntB);

/// The `pub(crate)` field of a toy encapsulated key
pub fn toy_lin_enc_pk(e: &<crate::kem::ToyKemLin as crate::kem::Kem>::EncappedKey) -> u16 {
    (e.0).0
}

// ---------------------------------------------------------------------------------------------
// ScriptHash / ScriptKdf: "the hash is an arbitrary function".  Nh = block = 66 so that one HKDF
// block yields a whole NIST candidate scalar (32/48/66 bytes).  Never executed as a hash: the
// harnesses that use it replace the hkdf crate by the stub layer, whose ScriptHash instantiation
// returns harness-chosen outputs and logs the HMAC inputs (kani/hv/src/fasthkdf.rs).
// ---------------------------------------------------------------------------------------------
use generic_array::typenum::U66;

#[derive(Clone)]
pub struct ScriptHash {
    pub pad: [u8; 64],
}
impl Default for ScriptHash {
    fn default() -> Self {
        ScriptHash { pad: [0u8; 64] }
    }
}
impl HashMarker for ScriptHash {}
impl OutputSizeUser for ScriptHash {
    type OutputSize = U66;
}
impl BlockSizeUser for ScriptHash {
    type BlockSize = U66;
}
impl Update for ScriptHash {
    fn update(&mut self, _data: &[u8]) {}
}
impl FixedOutput for ScriptHash {
    fn finalize_into(self, out: &mut Output<Self>) {
        for b in out.iter_mut() {
            *b = 0;
        }
    }
}
pub struct ScriptKdf;
impl KdfTrait for ScriptKdf {
    type HashImpl = ScriptHash;
    const KDF_ID: u16 = 0x7401;
}

// ---------------------------------------------------------------------------------------------
// EndsHash / EndsKdf: a "sketch" hash for LONG inputs (64 KiB and more).  As a hash it is a
// deterministic function of the concatenated message - its total length, its first 64 bytes, its
// last byte and the bytes at a few fixed far positions - so it is sound for equalities with the
// reference under any chunking, and each `update` costs O(1) symbolic-execution steps whatever
// the (symbolic) length of the slice.  Never executed through the real hmac crate: the harnesses
// that use it replace the hkdf crate by the stub layer (kani/hv/src/fasthkdf.rs).
// ---------------------------------------------------------------------------------------------
#[derive(Clone)]
pub struct EndsHash {
    pub pad: [u8; 32],
}
impl Default for EndsHash {
    fn default() -> Self {
        EndsHash { pad: [0u8; 32] }
    }
}
impl HashMarker for EndsHash {}
impl OutputSizeUser for EndsHash {
    type OutputSize = U8;
}
impl BlockSizeUser for EndsHash {
    type BlockSize = U8;
}
impl Update for EndsHash {
    fn update(&mut self, _data: &[u8]) {}
}
impl FixedOutput for EndsHash {
    fn finalize_into(self, out: &mut Output<Self>) {
        for b in out.iter_mut() {
            *b = 0;
        }
    }
}
pub struct EndsKdf;
impl KdfTrait for EndsKdf {
    type HashImpl = EndsHash;
    const KDF_ID: u16 = 0x7501;
}
