#!/usr/bin/env python3
"""Regenerates MANIFEST.json from the table below (kept in one place so that it stays valid)."""
import json, os, subprocess
V = os.path.dirname(os.path.dirname(os.path.abspath(__file__)))

KANI = "Kani 0.68 / CBMC 6.11 bounded model checking (CaDiCaL) of the real hpke source"
T = {
 "C01": ("bounded model checking (Kani/CBMC/SAT): inductive step of seal->open from an arbitrary common state + KEM/schedule agreement on a model suite",
         "Decides, for ALL values inside the stated bounds: KEM agreement (all 2^48 toy key triples), sender/receiver schedule agreement through the public setup API, and the inductive step of the message sequence from an arbitrary 64-bit counter (so histories of any length, incl. the 2^64-1 boundary) with an ideal AEAD, for the in-place and the allocating API (lengths 0..=17 / {0,3[,17]}). Tests cannot quantify over counters, keys and contents; this does, within the bounds.",
         "model suite DHKEM(XorDh,LinKdf)/LinKdf/IdealAead stands for the 36 real suites via parametricity + the real-type table harness; real AEAD/hash/curve arithmetic assumed correct; plaintext > 17 B outside the bounds"),
 "C02": ("bounded model checking (Kani/CBMC/SAT): differential harnesses, real setup/key-schedule/export code vs an independent RFC 9180 transcription, plus real-type constant tables",
         "Every output byte of setup_sender/setup_receiver (enc, AEAD key, base nonce, exporter secret, export value) equals an independent executable transcription of RFC 9180 for all four modes and all inputs inside the bounds, on a model suite; ephemeral key = DeriveKeyPair(Nsk RNG bytes); ids/sizes/suite-id bytes of the 48 real suites decided on the real types. A self-consistency test cannot see a symmetric deviation from the standard; this oracle can.",
         "model hash LinHash (equalities only; a deviation is found when some input distinguishes it), toy DH group; info/psk/psk_id/exporter context <= 2 B, export 3 B; conformance of sha2/aes-gcm/chacha20poly1305/curve crates themselves assumed; RFC-valid PSK inputs only"),
 "C03": ("bounded model checking (Kani/CBMC/SAT): real impl_dhkem!/gen_keypair/derive_keypair code over a model group vs RFC 9180 section 4.1/7.1.3 transcription",
         "Encap/Decap/AuthEncap/AuthDecap of the real macro body equal the RFC for all 2^48 toy key triples incl. both DH-failure paths; DeriveKeyPair labels/lengths for ikm 0..=4 B; gen_keypair == derive_keypair(Nsk bytes drawn) and the real KEMs request exactly Nsk bytes (32/32/48/66).",
         "pk(sk)/DH on the real curves for symbolic keys are not decided (curve arithmetic out of reach); the NIST candidate loop is decided on the real DhP256/DhP384 code with the hash as an arbitrary (scripted) function (the P-521 instance, the only one with a non-trivial bitmask, did not finish and is not claimed); model hash LinHash elsewhere"),
 "C04": ("bounded model checking (Kani/CBMC/SAT): one-step induction over an arbitrary context state with a spy AEAD",
         "From ANY (key, 96-bit base nonce, 64-bit seq, overflowed) the nonce handed to the AEAD is base XOR BE64(seq); counter +1 or latch exactly at 2^64-1; an exhausted context refuses forever without touching buffer or AEAD; mix_nonce injective in seq on the three real AEAD types; 3-step history. Covers all 2^64 sequence numbers, which no test can reach.",
         "AEAD replaced by a recording stub (hpke's behaviour does not depend on the AEAD's); plaintext <= 5 B, aad <= 3 B (hpke never branches on them)"),
 "C05": ("bounded model checking (Kani/CBMC/SAT): one-step induction with an arbitrary AEAD verdict + straight-line adversarial histories with an ideal AEAD",
         "Receiver step from an arbitrary state for open() (every length 0..=20) and open_in_place_detached: verdict/overflow decide the result and the counter exactly as the property says; histories skip/next/replay/next and tamper/truncate/next incl. the 2^64-1 boundary accept precisely the in-sequence message.",
         "ideal AEAD (INT-CTXT by construction) for the 'accepts precisely' half; histories of length <= 4 are checked end-to-end, longer ones follow from the inductive step"),
 "C06": ("bounded model checking (Kani/CBMC/SAT): what reaches the AEAD on open (spy) + end-to-end tampering with an ideal AEAD",
         "For every single-bit flip position in ciphertext, tag and aad, truncations/extensions and cross-message substitutions the allocating and in-place opens return OpenError, never plaintext; open() hands exactly (input[..len-16], last 16 bytes, aad) to the AEAD.",
         "that a real AEAD rejects modified input is the primitive's INT-CTXT property (assumed); hpke's contribution - nothing dropped, truncated, padded or misplaced - is what is decided; plaintext lengths {0,3}"),
 "C07": ("bounded model checking (Kani/CBMC/SAT) in the symbolic model with an injective (interning) hash",
         "For each single-component perturbation (info, psk, psk_id incl. boundary shift, mode with identical PSK data, recipient key, enc, AEAD/KDF/KEM id) the two contexts' key, base nonce and exporter secret ALL differ and the receiver rejects the sender's ciphertext, for all inputs inside the bounds.",
         "claim holds in the model where the hash is injective (for SHA-2: collision resistance, which no solver decides); strings <= 2 B; toy DH group"),
 "C08": ("bounded model checking (Kani/CBMC/SAT) in the symbolic model with an injective hash and a toy DH group",
         "Impostor with another key pair, impostor knowing only pkS, unauthenticated sender, wrong PSK: no shared key material with the Auth/AuthPsk receiver and ciphertext rejected, for all 16-bit keys; positive twin shows the honest sender is accepted.",
         "on real curves the same statement needs gap-DH (assumed); what is decided is that hpke feeds DH(skS,pkR) and pkSm into the KDF on both sides"),
 "C09": ("bounded model checking (Kani/CBMC/SAT) of the real p256/p384/p521-backed deserialisers",
         "All lengths != size => IncorrectInputLength(expected, given); right length with any tag byte != 0x04 => ValidationError; private keys accepted <=> 1 <= k < n over ALL byte strings (2^256/2^384/2^528) with identical re-serialisation.",
         "NOT decided for symbolic inputs: coordinates < p and curve-equation membership of tag-0x04 public keys (symbolic Montgomery arithmetic: 22 GB / no result, measured) - that half of the property is not claimed; only concrete P-256 anchors (valid point accepted, one flipped bit rejected, valid coordinates under tags 0x00/0x02/0x03/0x05 rejected) run through the real curve code; undefined tag bytes (0x06, 0xff, ...) with symbolic coordinates are not decided"),
 "C10": ("bounded model checking (Kani/CBMC/SAT) of the real X25519 wrapper and DHKEM call sites with the dalek scalar multiplication stubbed by an arbitrary-value oracle",
         "X25519::dh returns Err exactly when the multiplication result is all-zero, for every sk/pk encoding; a zero result at the first or second DH gives DecapError on the receiver / EncapError on the sender, propagated by setup_receiver and single-shot open; non-zero results are never rejected.",
         "that each of the 14 small-order encodings multiplies to zero for every scalar is Curve25519 mathematics (ladder out of reach: >20 min symbolic) and is not decided"),
 "C11": ("bounded model checking (Kani/CBMC/SAT): differential export vs RFC LabeledExpand, frame conditions, and the length limit over a symbolic L",
         "export == RFC value for arbitrary exporter secret, context <= 3 B, L 0..=17; independent of seq/overflowed and of interleaved seal/open successes and failures; Ok <=> L <= 255*Nh for every L in 0..=70000 on a Nh=2 model KDF and KdfOutputTooLong for every L > 255*Nh on real SHA-256/384/512 contexts; export-only suite exports and its seal/open panic.",
         "maximum-length successful export on real SHA-2 not executed (255 HMACs); LinHash model for values"),
 "C12": ("bounded model checking (Kani/CBMC/SAT) of the real (de)serialisers of every key and tag type",
         "sizes = RFC table; every wrong length 0..=2*size+2 => IncorrectInputLength(expected, given); identity round trip for ALL X25519 public/encapsulated keys, tags, NIST private keys; X25519 private keys up to clamping; write_exact panics on a wrong-size buffer and equals to_bytes otherwise.",
         "NIST public/encapsulated key re-encoding needs symbolic field arithmetic and is not decided"),
 "C13": ("bounded model checking (Kani/CBMC/SAT) with ALL default Kani checks on (bounds, overflow, pointer validity, unwrap/expect, unwinding)",
         "open()/single_shot_open for ciphertext lengths 0..=33 around the tag length, every deserialiser for lengths 0..=2*size+2, receiver/sender setup + export with info/psk/psk_id/exporter context of symbolic length: result is a value or an HpkeError, never a panic; setup errors are only EncapError / DecapError.",
         "64 KiB+ strings are covered by the structural argument in DESIGN.md (hpke copies attacker-controlled variable-length data nowhere but open()'s to_vec) plus the symbolic-length harnesses, not by executing a 64 KiB hash; panics inside the primitive crates are outside the claim; NIST tag-0x04 public keys not executed"),
 "C14": ("bounded model checking (Kani/CBMC/SAT): differential harnesses single-shot vs composed operations with shared scripted randomness",
         "single_shot_seal[_in_place_detached] == setup_sender+seal and single_shot_open[_in_place_detached] == setup_receiver+open in result AND error (incl. error precedence DecapError before OpenError on short/garbage ciphertexts) for all inputs inside the bounds; seal == in-place ciphertext || tag.",
         "model suite; plaintext <= 3 B; alloc variants at concrete wire lengths {0,15,18}"),
 "C15": ("bounded model checking (Kani/CBMC/SAT)",
         "PskBundle::new is Ok <=> both empty or both non-empty for all lengths 0..=64 and ALL contents (incl. all-zero keys); psk/psk_id enter the key schedule as the RFC says (differential C02 harnesses with independent symbolic psk and psk_id) and the empty bundle in Psk mode uses mode byte 1 with empty strings.",
         "lengths > 64 outside the bound (the function reads only the lengths)"),
 "C16": ("bounded model checking (Kani/CBMC/SAT) of drop glue: bytes of the memory slot read back after drop_in_place, plus a cfg-guarded drop ledger",
         "For every value of the secrets: SharedSecret (toy + real sizes 32/48/64) and AeadCtxS/AeadCtxR base nonce and exporter secret are all-zero after drop; the temporary AEAD key and the shared secret are dropped and wiped before setup returns.",
         "zeroize's barrier stubbed (no-op); survival of the writes under optimisation, copies left by moves and AEAD-internal key state are outside the claim"),
 "C17": ("SMT (z3) validity queries over cfg predicates extracted from the current source, all 2^7 configurations at once; counterexample configuration replayed with cargo check",
         "PARTIAL: presence logic only - in-place API unconditional, allocating API and its re-exports <=> alloc|std, exactly one Vec definition, std::/alloc:: paths gated, each KEM <=> its feature with its DH group defined, hooks vanish with the guard off, no feature cfg inside function bodies.",
         "that rustc accepts the crate and the tests pass under each of the 64 subsets (and examples/benches) is NOT decided: not an SMT question within reach"),
 "C18": ("bounded model checking (Kani/CBMC/SAT) of sequential histories + the Rust type checker for Send/Sync",
         "PARTIAL: history independence (an operation after arbitrary other-session calls still equals the RFC function of its own arguments and RNG bytes, incl. identical RNG streams), commutation/independence of operations on coexisting contexts, Send+Sync of all public types of the 48 suites.",
         "thread schedules are NOT explored (Kani has no concurrency model); hidden global state is covered by re-running the lemmas with every mutable static nondeterministic (CBMC --nondet-static), whose counterexamples are static-state valuations and are reported with the CBMC log (not natively replayable); under the no-statics/no-unsafe side condition the sequential results imply the threaded statement by Rust's aliasing rules - an argument, not a check"),
}

checks = []
for pid in sorted(T):
    tech, text, note = T[pid]
    checks.append({
        "property_id": pid,
        "quick_cmd": f"./run.py {pid} --tier quick",
        "thorough_cmd": f"./run.py {pid} --tier thorough",
        "evidence_file": f"evidence/{pid}.json",
        "replay_cmd_template": "./run.py --replay {path}",
        "engine": "cfgsat" if pid == "C17" else "kani-hv",
        "level_claimed": {"category": "other" if pid == "C17" else "model_checking", "text": text, "design_ref": f"DESIGN.md section 2, {pid}"},
        "level_note": note,
        "technique": tech,
    })
hooks = subprocess.run(["git", "-C", "/repo", "log", "--format=%H", "--grep=^verif hook"], stdout=subprocess.PIPE, text=True).stdout.split()
m = {
    "version": 1,
    "setup_cmd": "./run.py setup",
    "hooks": {
        "guard": "hpke_verif",
        "enable": "RUSTFLAGS='--cfg hpke_verif --cfg curve25519_dalek_backend=\"serial\"' HPKE_VERIF_MODEL=<build dir>/model/inrepo.rs HPKE_VERIF_KEMS=<build dir>/model/kems.rs, where <build dir>/model is run.py's per-run snapshot of /verif/model (set by run.py; cargo kani forwards them to every crate)",
        "baseline_off_cmd": "cd /repo && cargo test --workspace --no-fail-fast --offline",
        "source_commits": list(reversed(hooks)),
        "add_only": True,
    },
    "engines": [
        {"name": "kani-hv", "path": "kani/hv", "serves_properties": [p for p in sorted(T) if p != "C17"],
         "kind_free_text": "Kani 0.68 harness crate with a path dependency on /repo (hooks on): symbolic execution of the real hpke source by CBMC 6.11, decided by CaDiCaL; model primitives in model/ and kani/hv/src/models.rs; RFC 9180 reference in kani/hv/src/rfc9180.rs; driver run.py"},
        {"name": "cfgsat", "path": "cfgsat/c17.py", "serves_properties": ["C17"],
         "kind_free_text": "cfg-predicate extractor over /repo/src + z3 validity queries over the 2^7 configurations"},
    ],
    "checks": checks,
    "notes": "Exit codes of every command: 0 held, 1 reproduced violation (VIOLATION line), 2 not decided (build failure, timeout/OOM, unreachable witness, non-reproducing counterexample) - never reported as a pass. Known findings: known_findings.txt.",
    "not_applicable": [],
}
json.dump(m, open(os.path.join(V, "MANIFEST.json"), "w"), indent=1)
print("wrote MANIFEST.json with", len(checks), "checks; hook commits:", m["hooks"]["source_commits"])
