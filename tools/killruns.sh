#!/bin/bash
# stop every run.py / cargo-kani / cbmc process (used while developing)
for p in $(pgrep -x python3) $(pgrep -x cbmc) $(pgrep -x cargo-kani) $(pgrep -x kani-driver); do
  if tr '\0' ' ' < /proc/$p/cmdline 2>/dev/null | grep -qE "^(/[^ ]*)?python3 [^ ]*run.py|cbmc|cargo-kani|kani"; then kill -9 $p 2>/dev/null; fi
done
