#!/usr/bin/env python3
"""Driver for the solver-based checks of rozbb/rust-hpke (see DESIGN.md).

  run.py <PROPERTY> [--tier quick|thorough] [--only SUBSTR] [--jobs N]
  run.py --replay <case file>
  run.py clean

For a property Cnn the driver
  1. rebuilds the harness crate /verif/kani/hv against /repo's *current working tree* with the
     hooks on (cargo kani --only-codegen; the encoding is regenerated from source every run),
  2. runs every harness annotated `//@h name=cnn_... tier=...` of the requested tier as its own
     CBMC process (parallel, each under a wall-clock and address-space cap),
  3. reads Kani's JSON export: failed checks, cover witnesses, CBMC statistics,
  4. replays every counterexample natively (Kani concrete playback of the same harness against the
     real code) before it is reported,
  5. writes evidence/<id>.json and prints VIOLATION / KNOWN-FINDING lines.

Exit codes: 0 property held on everything explored (or only known findings reproduced);
            1 reproduced violation (VIOLATION line printed);
            2 not decided: build failure, timeout/OOM, unreachable witness, non-reproducing
              counterexample.  Never reported as a pass.
"""
import argparse
import concurrent.futures as cf
import json
import os
import re
import resource
import shutil
import subprocess
import sys
import time

VERIF = os.path.dirname(os.path.abspath(__file__))
REPO = os.environ.get("HPKE_REPO", "/repo")
CRATE_SRC = os.path.join(VERIF, "kani", "hv")
BUILD = os.environ.get("VERIF_BUILD_DIR", os.path.join(VERIF, ".build"))
# the harness crate is snapshotted into the build dir before every run, so that editing
# /verif/kani/hv while a check is running cannot change what that check verifies
CRATE = os.path.join(BUILD, "crate", "hv")
TARGET = os.path.join(BUILD, "hv")
OUT = os.path.join(BUILD, "out")
EVID = os.environ.get("VERIF_EVIDENCE_DIR", os.path.join(VERIF, "evidence"))
CASES = os.environ.get("VERIF_CASES_DIR", os.path.join(VERIF, "replay", "cases"))
KNOWN = os.path.join(VERIF, "known_findings.txt")

ENV = dict(os.environ)
ENV.update(
    {
        "HPKE_VERIF_MODEL": os.path.join(os.environ.get("VERIF_BUILD_DIR", os.path.join(VERIF, ".build")), "model", "inrepo.rs"),
        "HPKE_VERIF_KEMS": os.path.join(os.environ.get("VERIF_BUILD_DIR", os.path.join(VERIF, ".build")), "model", "kems.rs"),
        "RUSTFLAGS": '--cfg hpke_verif --cfg curve25519_dalek_backend="serial"',
        "CARGO_NET_OFFLINE": "true",
        "CARGO_TERM_COLOR": "never",
    }
)

BASE_ARGS = ["-Z", "stubbing", "-Z", "unstable-options"]
# "func": functional harness, default memory-safety/overflow instrumentation off (2-4x faster
# symbolic execution); user assertions, unwinding assertions and panics stay checked.
# "full": every default Kani check on (used where panic/overflow freedom is the claim).
MODE_ARGS = {
    "func": ["--no-assertion-reach-checks", "--no-memory-safety-checks", "--no-overflow-checks"],
    "full": ["--no-assertion-reach-checks"],
}
MEM_LIMIT = int(os.environ.get("VERIF_MEM_GB", "20")) * (1 << 30)


def log(*a):
    print(*a, flush=True)


# ------------------------------------------------------------------------------------------
# harness registry: parsed from the `//@h` annotations in kani/hv/src/*.rs
# ------------------------------------------------------------------------------------------
def load_registry():
    reg = {}
    srcdir = os.path.join(CRATE_SRC, "src")
    for fn in sorted(os.listdir(srcdir)):
        if not fn.endswith(".rs"):
            continue
        mod = fn[:-3]
        for line in open(os.path.join(srcdir, fn)):
            m = re.match(r"\s*//@h\s+(.*)$", line)
            if not m:
                continue
            kv = {}
            for k, v in re.findall(r'(\w+)=("[^"]*"|\S+)', m.group(1)):
                kv[k] = v.strip('"')
            name = kv["name"]
            kv.setdefault("tier", "quick")
            kv.setdefault("mode", "func")
            kv.setdefault("timeout", "900")
            kv.setdefault("desc", "")
            kv.setdefault("bounds", "")
            kv["module"] = mod
            # `fn=` lets a registry entry re-run an existing harness function under other CBMC options
            kv["full_name"] = f"{mod}::{kv.get('fn', name)}"
            kv["prop"] = kv.get("prop", name.split("_")[0].upper())
            reg[name] = kv
    return reg


# ------------------------------------------------------------------------------------------
def limits():
    resource.setrlimit(resource.RLIMIT_AS, (MEM_LIMIT, MEM_LIMIT))
    os.setsid()


def build():
    """(Re)generate the goto programs from the current /repo tree. Returns (ok, seconds, log)."""
    os.makedirs(OUT, exist_ok=True)
    os.makedirs(CRATE, exist_ok=True)
    subprocess.run(["rsync", "-a", "--delete", "--exclude", "target", CRATE_SRC + "/", CRATE + "/"], check=True)
    # the model files that are textually included into hpke are snapshotted as well
    msnap = os.path.join(BUILD, "model")
    os.makedirs(msnap, exist_ok=True)
    subprocess.run(["rsync", "-a", "--delete", os.path.join(VERIF, "model") + "/", msnap + "/"], check=True)
    # the path dependency on the repository under test
    ct = os.path.join(CRATE, "Cargo.toml")
    if REPO != "/repo":
        txt = open(ct).read().replace('path = "/repo"', 'path = "%s"' % REPO)
        open(ct, "w").write(txt)
    t0 = time.time()
    p = subprocess.run(
        ["cargo", "kani", "--target-dir", TARGET] + BASE_ARGS + ["--only-codegen"],
        cwd=CRATE,
        env=ENV,
        stdout=subprocess.PIPE,
        stderr=subprocess.STDOUT,
        text=True,
    )
    return p.returncode == 0, time.time() - t0, p.stdout


def cbmc_args(h):
    """CBMC splits arrays into per-element variables only up to 64 elements by default; larger ones
    (a 65-byte P-256 key, message buffers, the interning table rows) are handled as whole-array
    update chains, which made a concrete-tag check on a 65-byte key run out of memory (2.5 M steps)
    instead of finishing in 3 s.  Must be the last flags on the command line."""
    fs = h.get("fs", os.environ.get("VERIF_FS", ""))
    extra = h.get("cbmc", "").split()
    args = []
    if fs:  # CBMC default is 64; measured: 256 everywhere makes the interning harnesses >3x slower
        args += ["--max-field-sensitivity-array-size", str(fs)]
    # cbmc=--nondet-static: every mutable static (of hpke, its dependencies and the models) starts with an
    # ARBITRARY value = "any earlier history of hidden global state"
    args += extra
    return (["--cbmc-args"] + args) if args else []


def strip_generics(name):
    out, depth = [], 0
    for ch in name:
        if ch == "<":
            depth += 1
        elif ch == ">":
            depth = max(0, depth - 1)
        elif depth == 0:
            out.append(ch)
    return re.sub(r"::+", "::", "".join(out)).strip(":")


def hpke_functions(checks):
    """hpke functions in which CBMC generated at least one check (a lower bound on what was encoded)"""
    fs = set()
    for c in checks:
        f = c.get("function", "") or ""
        m = re.search(r"hpke::[A-Za-z0-9_:<>, &'\[\];]*", f)
        if f.startswith("hpke::") or f.startswith("<hpke::"):
            g = strip_generics(f.replace("<hpke::", "hpke::", 1) if f.startswith("<hpke::") else f)
            if " as " in g:
                g = g.split(" as ")[0]
            fs.add(g)
    return sorted(fs)


def run_harness(h, extra=None, tag=""):
    """Run one harness as its own cargo-kani/CBMC process. Returns a result dict."""
    name = h["name"]
    js = os.path.join(OUT, f"{name}{tag}.json")
    lg = os.path.join(OUT, f"{name}{tag}.log")
    if os.path.exists(js):
        os.remove(js)
    cmd = (
        ["cargo", "kani", "--target-dir", TARGET]
        + BASE_ARGS
        + MODE_ARGS[h["mode"]]
        + ["--harness", h["full_name"], "--exact", "--output-format", "terse", "--export-json", js]
        + (extra or [])
        + cbmc_args(h)
    )
    t0 = time.time()
    timeout = int(h["timeout"]) * float(os.environ.get("VERIF_TIMEOUT_SCALE", "1"))
    with open(lg, "w") as f:
        proc = subprocess.Popen(
            cmd, cwd=CRATE, env=ENV, stdout=f, stderr=subprocess.STDOUT, preexec_fn=limits
        )
        try:
            rc = proc.wait(timeout=timeout)
            timed_out = False
        except subprocess.TimeoutExpired:
            timed_out = True
            try:
                os.killpg(proc.pid, 9)
            except ProcessLookupError:
                pass
            proc.wait()
            rc = -9
    wall = time.time() - t0
    res = {
        "name": name,
        "wall_s": round(wall, 1),
        "rc": rc,
        "timed_out": timed_out,
        "status": "undecided",
        "failed_checks": [],
        "covers": {"satisfied": 0, "total": 0, "unsat": []},
        "stats": {},
        "n_checks": 0,
        "n_passed": 0,
        "log": lg,
    }
    if timed_out:
        res["reason"] = f"timeout after {int(timeout)} s"
        return res
    text = open(lg, errors="replace").read()
    if not os.path.exists(js):
        res["reason"] = "no JSON export (build error, crash or OOM); see " + lg
        if "error[" in text or "error:" in text:
            res["reason"] = "build/driver error; see " + lg
        return res
    try:
        d = json.load(open(js))
    except Exception as e:  # noqa
        res["reason"] = f"unreadable JSON export: {e}"
        return res
    results = d.get("verification_results", {}).get("results", [])
    if not results:
        res["reason"] = "harness not found in export"
        return res
    r = results[0]
    checks = r.get("checks", [])
    res["n_checks"] = len(checks)
    res["hpke_functions"] = hpke_functions(checks)
    failed = []
    undet = []
    for c in checks:
        st = c.get("status", "")
        cat = c.get("category", "")
        if cat == "cover" or st in ("Satisfied", "Unsatisfiable", "Unreachable") and "cover" in (c.get("description", "") + cat):
            pass
        if st == "Failure":
            failed.append(
                {
                    "description": c.get("description", ""),
                    "function": c.get("function", ""),
                    "location": "%s:%s" % ((c.get("location") or {}).get("file", "?"), (c.get("location") or {}).get("line", "?")),
                    "category": cat,
                }
            )
        elif st in ("Undetermined", "Error", "SolverError"):
            undet.append(c.get("description", ""))
        elif st == "Success":
            res["n_passed"] += 1
    # cover witnesses
    sat = [c for c in checks if c.get("status") == "Satisfied"]
    unsat = [c for c in checks if c.get("status") in ("Unsatisfiable", "Unreachable") and c.get("category") == "cover"]
    res["covers"] = {
        "satisfied": len(sat),
        "total": len(sat) + len(unsat),
        "unsat": [c.get("description", "") for c in unsat],
    }
    for c in d.get("cbmc", []):
        res["stats"] = {k: (v if v is not None else 0) for k, v in (c.get("cbmc_stats") or {}).items()}
    res["failed_checks"] = failed
    st = r.get("status")
    should_panic = False
    for hm in d.get("harness_metadata", []):
        should_panic = hm.get("attributes", {}).get("should_panic", False)
    res["should_panic"] = should_panic
    if st == "Success" and not undet:
        res["status"] = "pass"
    elif failed or (should_panic and st != "Success"):
        res["status"] = "fail"
        if should_panic and not failed:
            res["failed_checks"] = [
                {"description": "expected a panic on every path but none is reachable", "function": "", "location": "", "category": "should_panic"}
            ]
    else:
        res["reason"] = "status %s, undetermined: %s" % (st, undet[:3])
    if res["status"] == "pass" and unsat:
        res["status"] = "vacuous"
        res["reason"] = "cover witness unreachable: %s" % res["covers"]["unsat"]
    return res


# ------------------------------------------------------------------------------------------
# replay of a counterexample: Kani concrete playback of the same harness, natively
# ------------------------------------------------------------------------------------------
PLAYBACK_RE = re.compile(r"```\s*\n(/// Test generated for harness.*?)```", re.S)


def replay(h, res):
    """Returns (reproduced: bool|None, case_path). None = could not replay."""
    os.makedirs(CASES, exist_ok=True)
    name = h["name"]
    lg = os.path.join(OUT, f"{name}.playback.log")
    cmd = (
        ["cargo", "kani", "--target-dir", TARGET]
        + BASE_ARGS
        + MODE_ARGS[h["mode"]]
        + ["-Z", "concrete-playback", "--concrete-playback=print", "--harness", h["full_name"], "--exact"]
        + cbmc_args(h)
    )
    with open(lg, "w") as f:
        proc = subprocess.Popen(cmd, cwd=CRATE, env=ENV, stdout=f, stderr=subprocess.STDOUT, preexec_fn=limits)
        try:
            proc.wait(timeout=int(h["timeout"]) * 2)
        except subprocess.TimeoutExpired:
            try:
                os.killpg(proc.pid, 9)
            except ProcessLookupError:
                pass
            return None, None
    text = open(lg, errors="replace").read()
    m = PLAYBACK_RE.search(text)
    case = os.path.join(CASES, f"{h['prop']}-{name}.rs")
    if not m:
        return None, None
    test_src = m.group(1)
    tm = re.search(r"fn (kani_concrete_playback_\w+)", test_src)
    test_name = tm.group(1) if tm else "kani_concrete_playback"
    meta = {
        "property": h["prop"],
        "harness": h["full_name"],
        "failed_checks": res["failed_checks"][:5],
        "test_name": test_name,
    }
    with open(case, "w") as f:
        f.write("// " + json.dumps(meta) + "\n")
        f.write(f"// replay: ./run.py --replay {case}\n")
        f.write(test_src)
    ok = run_case(case)
    return ok, case


def run_case(case):
    """Compile the generated unit test into the harness module it belongs to and run it natively
    (dev and release) with `cargo kani playback`. True = the failure reproduces."""
    first = open(case).readline()
    meta = json.loads(first[3:])
    mod = meta["harness"].split("::")[0]
    test_name = meta["test_name"]
    body = "".join(l for l in open(case).readlines()[2:])
    gen = os.path.join(CRATE, "src", "playback_case.rs")
    with open(gen, "w") as f:
        f.write("// generated by run.py --replay; not committed\n")
        f.write(f"use crate::{mod}::*;\n")
        f.write(body)
    reproduced = False
    try:
        for prof in ([],):
            p = subprocess.run(
                ["cargo", "kani", "playback", "-Z", "concrete-playback"] + prof + ["--", test_name, "--nocapture"],
                cwd=CRATE,
                env=dict(ENV, HV_PLAYBACK="1"),
                stdout=subprocess.PIPE,
                stderr=subprocess.STDOUT,
                text=True,
            )
            out = p.stdout
            with open(os.path.join(OUT, "replay_%s%s.log" % (test_name, "_rel" if prof else "")), "w") as f:
                f.write(out)
            if re.search(r"test result: FAILED|panicked at", out) and "could not compile" not in out:
                reproduced = True
            elif "could not compile" in out:
                log("replay: build error, see", f.name)
                return None
    finally:
        with open(gen, "w") as f:
            f.write("// placeholder; overwritten by run.py --replay\n")
    return reproduced


# ------------------------------------------------------------------------------------------
def load_known():
    fixed, known = [], []
    if os.path.exists(KNOWN):
        for line in open(KNOWN):
            line = line.strip()
            if not line or line.startswith("#"):
                continue
            if line.startswith("fixed:"):
                fixed.append(line)
            elif line.startswith("known:"):
                # known: property=C05 harness=<name> check=<substring> :: text
                m = re.match(r"known:\s*property=(\S+)\s+harness=(\S+)\s+check=\"([^\"]*)\"\s*::\s*(.*)", line)
                if m:
                    known.append({"prop": m.group(1), "harness": m.group(2), "check": m.group(3), "text": m.group(4)})
    return fixed, known


def is_known(known, prop, res):
    """A failing harness is a known finding only if *every* failed check matches an entry."""
    if not res["failed_checks"]:
        return None
    hits = []
    for c in res["failed_checks"]:
        hit = None
        for k in known:
            if k["prop"] == prop and k["harness"] == res["name"] and k["check"] in c["description"]:
                hit = k
        if hit is None:
            return None
        hits.append(hit)
    return hits


def write_evidence(prop, tier, seed, level, coverage, assumptions, wall, violations):
    os.makedirs(EVID, exist_ok=True)
    ev = {
        "property_id": prop,
        "tier": tier,
        "seed": seed,
        "level": level,
        "coverage": coverage,
        "assumptions": assumptions,
        "wall_s": round(wall, 1),
        "violations": violations,
    }
    with open(os.path.join(EVID, f"{prop}.json"), "w") as f:
        json.dump(ev, f, indent=1)
        f.write("\n")


def repo_state():
    try:
        head = subprocess.run(["git", "-C", REPO, "rev-parse", "HEAD"], stdout=subprocess.PIPE, text=True).stdout.strip()
        dirty = subprocess.run(["git", "-C", REPO, "status", "--porcelain", "--", "src", "Cargo.toml"], stdout=subprocess.PIPE, text=True).stdout.strip()
        return head + ("+dirty" if dirty else "")
    except Exception:
        return "unknown"


def main():
    ap = argparse.ArgumentParser()
    ap.add_argument("prop", nargs="?")
    ap.add_argument("--tier", default=os.environ.get("VERIF_TIER", "quick"))
    ap.add_argument("--only", default=None)
    ap.add_argument("--jobs", type=int, default=int(os.environ.get("VERIF_JOBS", "8")))
    ap.add_argument("--replay", default=None)
    ap.add_argument("--no-replay", action="store_true")
    args = ap.parse_args()
    seed = int(os.environ.get("VERIF_SEED", "0") or 0)

    if args.prop == "clean":
        shutil.rmtree(BUILD, ignore_errors=True)
        shutil.rmtree(os.path.join(CRATE, "target"), ignore_errors=True)
        return 0

    if args.prop == "setup":
        ok, t, out = build()
        log(f"setup: harness crate {'built' if ok else 'FAILED to build'} in {t:.0f} s")
        if not ok:
            log(out[-4000:])
        return 0 if ok else 2

    if args.replay:
        ok, t, out = build()
        r = run_case(args.replay)
        if r is True:
            log("replay: the counterexample reproduces against the real code")
            return 1
        log("replay: the counterexample does NOT reproduce" if r is False else "replay: could not run")
        return 0 if r is False else 2

    props_req = [x.strip().upper() for x in args.prop.split(",") if x.strip()]
    if len(props_req) == 1 and props_req[0] in SPECIAL:
        return SPECIAL[props_req[0]](args, seed)

    t_start = time.time()
    reg = load_registry()
    if props_req == ["ALL"]:
        props_req = sorted({h["prop"] for h in reg.values()} | {p for h in reg.values() for p in h.get("also", "").split(",") if p})
    tiers = ["quick"] if args.tier == "quick" else ["quick", "thorough"]
    per_prop = {}
    allhs = {}
    for prop in props_req:
        hs = [h for h in reg.values() if (h["prop"] == prop or prop in h.get("also", "").split(",")) and h["tier"] in tiers]
        if args.only:
            hs = [h for h in hs if args.only in h["name"]]
        per_prop[prop] = hs
        for h in hs:
            allhs[h["name"]] = h
    label = ",".join(props_req)
    if not allhs:
        log(f"no harnesses registered for {label}")
        return 2
    order = sorted(allhs.values(), key=lambda h: -int(h["timeout"]))
    if seed:
        import random

        random.Random(seed).shuffle(order)

    log(f"[{label}] building harness crate against {REPO} ({repo_state()}) ...")
    ok, tb, out = build()
    if not ok:
        log(out[-6000:])
        log(f"[{label}] NOT DECIDED: harness crate does not build against the current tree")
        for prop in props_req:
            write_evidence(prop, args.tier, seed, "model_checking",
                           {"evaluations": 1, "distinct_nontrivial": 0, "rule": "build failed", "samples": ["build failure"],
                            "explanation": "the harness crate did not compile against the current /repo tree; nothing was decided"},
                           [], time.time() - t_start, 0)
        return 2
    log(f"[{label}] build ok in {tb:.0f} s; running {len(order)} harnesses, {args.jobs} at a time")

    results = {}
    # token scheduler: a harness annotated slots=N (memory-hungry: the interning harnesses peak at
    # ~10-17 GB) occupies N of the `jobs` tokens, so that the sum stays inside the machine's RAM
    import threading

    cond = threading.Condition()
    free = [args.jobs]
    # registry entries that re-run the same harness function (fn=) share Kani's per-harness
    # intermediate files: never run two of them at the same time
    fn_locks = {}
    for h in order:
        fn_locks.setdefault(h["full_name"], threading.Lock())

    def guarded(h):
        need = min(int(h.get("slots", "1")), args.jobs)
        with cond:
            while free[0] < need:
                cond.wait()
            free[0] -= need
        try:
            with fn_locks[h["full_name"]]:
                return run_harness(h)
        finally:
            with cond:
                free[0] += need
                cond.notify_all()

    with cf.ThreadPoolExecutor(max_workers=args.jobs) as ex:
        futs = {ex.submit(guarded, h): h for h in order}
        for fu in cf.as_completed(futs):
            h = futs[fu]
            try:
                r = fu.result()
            except Exception as e:  # noqa: a driver bug must never look like a pass
                import traceback

                traceback.print_exc()
                r = {"name": h["name"], "wall_s": 0.0, "rc": -1, "timed_out": False, "status": "undecided", "failed_checks": [],
                     "covers": {"satisfied": 0, "total": 0, "unsat": []}, "stats": {}, "n_checks": 0, "n_passed": 0, "log": "",
                     "reason": "driver error: %r" % (e,)}
            results[h["name"]] = r
            s = r["stats"] or {}
            log(
                f"[{h['prop']}] {r['status']:9s} {h['name']:44s} {r['wall_s']:7.1f}s checks={r['n_checks']} "
                f"covers={r['covers']['satisfied']}/{r['covers']['total']} symex={s.get('runtime_symex_s', 0):.0f}s "
                f"solver={s.get('runtime_solver_s', 0):.0f}s " + (r.get("reason", "") if r["status"] not in ("pass",) else "")
            )
    rc = 0
    for prop in props_req:
        if not per_prop[prop]:
            continue
        rc = max(rc, conclude(prop, per_prop[prop], results, args, seed, tb, t_start), key=lambda x: {0: 0, 2: 1, 1: 2}[x])
    return rc


def conclude(prop, hs, results, args, seed, tb, t_start):
    # only this property's harnesses count for its verdict and evidence
    results = {h["name"]: results[h["name"]] for h in hs}
    fixed, known = load_known()
    violations = []
    known_hits = []
    undecided = []
    unreplayed = []
    failing = []
    for h in hs:
        r = results[h["name"]]
        if r["status"] == "pass":
            continue
        if r["status"] == "fail":
            kh = is_known(known, prop, r)
            if kh:
                known_hits.extend(kh)
            else:
                failing.append((h, r))
        else:
            undecided.append((h, r.get("reason", r["status"])))
    # replay the cheapest counterexample first; one reproduced counterexample is enough to report
    # the violation, the remaining failing harnesses are listed but not replayed (trace generation
    # costs several times the original query)
    failing.sort(key=lambda hr: hr[1]["wall_s"])
    for h, r in failing:
        log(f"[{prop}] counterexample in {h['name']}: " + "; ".join(c["description"] for c in r["failed_checks"][:3]))
        if args.no_replay:
            violations.append((h, r, None))
            continue
        if violations:
            unreplayed.append((h, r))
            continue
        if h.get("replay", "playback") == "log":
            # should_panic harnesses / harnesses over a stubbed primitive have no playback test:
            # the CBMC log (with the failing checks) is the artefact
            os.makedirs(CASES, exist_ok=True)
            art = os.path.join(CASES, f"{h['prop']}-{h['name']}.log")
            try:
                shutil.copy(r["log"], art)
                with open(art, "a") as f:
                    f.write("\nfailed checks:\n" + json.dumps(r["failed_checks"], indent=1) + "\n")
            except OSError:
                art = r["log"]
            violations.append((h, r, art))
            continue
        log(f"[{prop}] replaying {h['name']} natively (Kani concrete playback) ...")
        rep, case = replay(h, r)
        if rep is True:
            log(f"[{prop}] reproduced against the real code")
            violations.append((h, r, case))
        elif rep is False:
            undecided.append((h, "counterexample does not reproduce natively (encoding or stub wrong?)"))
        else:
            undecided.append((h, "counterexample could not be replayed"))

    wall = time.time() - t_start
    # ---------------- evidence ----------------
    n_oblig = sum(r["n_checks"] for r in results.values())
    n_disch = sum(r["n_passed"] + r["covers"]["satisfied"] for r in results.values())
    nontrivial = sum(1 for r in results.values() if r["stats"].get("vccs_remaining", 0) > 0)
    samples = []
    for h in hs:
        r = results[h["name"]]
        samples.append(
            {
                "harness": h["full_name"],
                "lemma": h["desc"],
                "bounds": h["bounds"],
                "mode": h["mode"],
                "verdict": r["status"],
                "wall_s": r["wall_s"],
                "checks": r["n_checks"],
                "cover_witnesses": "%d/%d" % (r["covers"]["satisfied"], r["covers"]["total"]),
                "vccs_generated": r["stats"].get("vccs_generated"),
                "vccs_after_simplification": r["stats"].get("vccs_remaining"),
                "symex_s": r["stats"].get("runtime_symex_s"),
                "solver_s": r["stats"].get("runtime_solver_s"),
                "program_steps": r["stats"].get("size_program_expression"),
                "hpke_functions_with_checks": r.get("hpke_functions", []),
            }
        )
    coverage = {
        "evaluations": len(hs),
        "distinct_nontrivial": nontrivial,
        "rule": "one evaluation = one Kani harness = one CBMC/CaDiCaL query over the symbolically executed real code for ALL values of its symbolic inputs inside the stated bounds; non-trivial = at least one verification condition survived simplification and was decided by the SAT solver",
        "samples": samples,
        "obligations": n_oblig,
        "discharged": n_disch,
        "checker_cmd": "cargo kani (Kani 0.68.0, CBMC 6.11.0, CaDiCaL) --harness <h> --exact " + " ".join(BASE_ARGS),
        "trusted_base": ["rustc/Kani MIR->goto translation", "CBMC 6.11 symbolic execution and bit-blasting", "CaDiCaL", "the model primitives and stubs listed under assumptions"],
        "explanation": "bounded model checking of the real hpke source compiled by Kani from /repo's working tree (%s); unwinding assertions on; every harness listed under samples with its bounds; a counterexample is replayed natively before it is reported" % repo_state(),
        "functions_encoded": sorted({f for r in results.values() for f in r.get("hpke_functions", [])}),
        "functions_encoded_note": "hpke functions in which CBMC generated at least one check, from Kani's JSON export (a lower bound: in `func` mode functions without assertions, panics or loops carry no check)",
        "solver_time_s": round(sum(r["stats"].get("runtime_solver_s", 0) or 0 for r in results.values()), 1),
        "symex_time_s": round(sum(r["stats"].get("runtime_symex_s", 0) or 0 for r in results.values()), 1),
        "undecided": [h["name"] + ": " + why for h, why in undecided],
        "known_findings": [k["text"] for k in known_hits],
        "counterexamples_not_replayed": [h["name"] for h, r in unreplayed],
        "build_s": round(tb, 1),
        "exhaustive": False,
    }
    write_evidence(prop, args.tier, seed, "model_checking", coverage, ASSUMPTIONS.get(prop, []) + COMMON_ASSUMPTIONS, wall, len(violations))

    for k in {k["text"]: k for k in known_hits}.values():
        log(f"KNOWN-FINDING: property={prop} {k['text']}")
    for h, r, case in violations:
        log(f"VIOLATION property={prop} replay={case}")
        for c in r["failed_checks"][:5]:
            log(f"    {h['name']}: {c['description']} @ {c['location']}")
    for h, r in unreplayed:
        log(f"    also failing (not replayed): {h['name']}: " + "; ".join(c["description"] for c in r["failed_checks"][:2]))
    if violations:
        return 1
    if undecided:
        for h, why in undecided:
            log(f"[{prop}] NOT DECIDED {h['name']}: {why}")
        return 2
    log(f"[{prop}] all {len(hs)} harnesses hold within their bounds ({wall:.0f} s)")
    return 0


COMMON_ASSUMPTIONS = [
    "zeroize::optimization_barrier (inline-asm compiler fence) is stubbed by a no-op",
    "build differs from the shipped one by --cfg hpke_verif, --cfg curve25519_dalek_backend=\"serial\" and sha2/force-soft (cpuid inline asm cannot be modelled)",
    "loops are unwound to the bound given per harness; unwinding assertions are on, so a too-small bound is reported, not silently truncated",
]
ASSUMPTIONS = {}
SPECIAL = {}

try:
    sys.path.insert(0, VERIF)
    import props  # noqa: E402

    ASSUMPTIONS.update(props.ASSUMPTIONS)
    SPECIAL.update(props.SPECIAL)
except ImportError:
    pass

if __name__ == "__main__":
    sys.exit(main())
