// {"property": "C04", "harness": "c04::c04_l2_mix_nonce_aes128", "failed_checks": [{"description": "assertion failed: n1 [..] == expected_nonce(& base, s1)[..]", "function": "c04::c04_l2_mix_nonce_aes128", "location": "src/c04.rs:178", "category": "assertion"}, {"description": "assertion failed: n2 [..] == expected_nonce(& base, s2)[..]", "function": "c04::c04_l2_mix_nonce_aes128", "location": "src/c04.rs:178", "category": "assertion"}], "test_name": "kani_concrete_playback_c04_l2_mix_nonce_aes128_4669012436654931556"}
// replay: ./run.py --replay /verif/replay/cases/C04-c04_l2_mix_nonce_aes128.rs
/// Test generated for harness `c04::c04_l2_mix_nonce_aes128` 
///
/// Check for `assertion`: "assertion failed: n1 [..] == expected_nonce(& base, s1)[..]"
///
/// # Warning
///
/// Concrete playback tests combined with stubs or contracts is highly
/// experimental, and subject to change.
///
/// The original harness has stubs which are not applied to this test.
/// This may cause a mismatch of non-deterministic values if the stub
/// creates any non-deterministic value.
/// The execution path may also differ, which can be used to refine the stub
/// logic.

#[test]
fn kani_concrete_playback_c04_l2_mix_nonce_aes128_4669012436654931556() {
    let concrete_vals: Vec<Vec<u8>> = vec![
        // 6
        vec![6],
        // 246
        vec![246],
        // 170
        vec![170],
        // 170
        vec![170],
        // 2
        vec![2],
        // 9
        vec![9],
        // 5
        vec![5],
        // 5
        vec![5],
        // 94
        vec![94],
        // 8
        vec![8],
        // 127
        vec![127],
        // 255
        vec![255],
        // 18443922697063300528ul
        vec![176, 253, 56, 15, 249, 249, 245, 255],
        // 18446744069599461375ul
        vec![255, 255, 4, 11, 255, 255, 255, 255],
    ];
    kani::concrete_playback_run(concrete_vals, c04_l2_mix_nonce_aes128);
}
