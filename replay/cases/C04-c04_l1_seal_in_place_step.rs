// {"property": "C04", "harness": "c04::c04_l1_seal_in_place_step", "failed_checks": [{"description": "assertion failed: c.nonce == expected_nonce(&base, seq)", "function": "c04::c04_l1_seal_in_place_step", "location": "src/c04.rs:64", "category": "assertion"}], "test_name": "kani_concrete_playback_c04_l1_seal_in_place_step_15098110072455497142"}
// replay: ./run.py --replay /verif/replay/cases/C04-c04_l1_seal_in_place_step.rs
/// Test generated for harness `c04::c04_l1_seal_in_place_step` 
///
/// Check for `assertion`: "assertion failed: c.nonce == expected_nonce(&base, seq)"
///
/// # Warning
///
/// Concrete playback tests combined with stubs or contracts is highly
/// experimental, and subject to change.
///
/// The original harness has stubs which are not applied to this test.
/// This may cause a mismatch of non-deterministic values if the stub
/// creates any non-deterministic value.
/// The execution path may also differ, which can be used to refine the stub
/// logic.

#[test]
fn kani_concrete_playback_c04_l1_seal_in_place_step_15098110072455497142() {
    let concrete_vals: Vec<Vec<u8>> = vec![
        // 0
        vec![0],
        // 0
        vec![0],
        // 0
        vec![0],
        // 0
        vec![0],
        // 0
        vec![0],
        // 0
        vec![0],
        // 0
        vec![0],
        // 0
        vec![0],
        // 0
        vec![0],
        // 0
        vec![0],
        // 0
        vec![0],
        // 0
        vec![0],
        // 0
        vec![0],
        // 0
        vec![0],
        // 0
        vec![0],
        // 0
        vec![0],
        // 0
        vec![0],
        // 0
        vec![0],
        // 0
        vec![0],
        // 0
        vec![0],
        // 255
        vec![255],
        // 255
        vec![255],
        // 255
        vec![255],
        // 255
        vec![255],
        // 255
        vec![255],
        // 254
        vec![254],
        // 255
        vec![255],
        // 254
        vec![254],
        // 255
        vec![255],
        // 255
        vec![255],
        // 255
        vec![255],
        // 255
        vec![255],
        // 255
        vec![255],
        // 255
        vec![255],
        // 255
        vec![255],
        // 255
        vec![255],
        // 18446744073709486078ul
        vec![254, 255, 254, 255, 255, 255, 255, 255],
        // 0
        vec![0],
        // 0ul
        vec![0, 0, 0, 0, 0, 0, 0, 0],
        // 3ul
        vec![3, 0, 0, 0, 0, 0, 0, 0],
        // 128
        vec![128],
        // 128
        vec![128],
        // 240
        vec![240],
        // 4
        vec![4],
        // 128
        vec![128],
        // 255
        vec![255],
        // 255
        vec![255],
        // 255
        vec![255],
        // 1
        vec![1],
        // 1
        vec![1],
        // 1
        vec![1],
        // 1
        vec![1],
        // 1
        vec![1],
        // 1
        vec![1],
        // 1
        vec![1],
        // 1
        vec![1],
        // 1
        vec![1],
        // 1
        vec![1],
        // 1
        vec![1],
        // 1
        vec![1],
        // 1
        vec![1],
        // 1
        vec![1],
        // 1
        vec![1],
        // 1
        vec![1],
        // 0
        vec![0],
    ];
    kani::concrete_playback_run(concrete_vals, c04_l1_seal_in_place_step);
}
