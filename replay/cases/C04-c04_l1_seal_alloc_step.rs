// {"property": "C04", "harness": "c04::c04_l1_seal_alloc_step", "failed_checks": [{"description": "assertion failed: spy().last.nonce == expected_nonce(&base, seq)", "function": "c04::c04_l1_seal_alloc_step", "location": "src/c04.rs:129", "category": "assertion"}], "test_name": "kani_concrete_playback_c04_l1_seal_alloc_step_6402099984011755"}
// replay: ./run.py --replay /verif/replay/cases/C04-c04_l1_seal_alloc_step.rs
/// Test generated for harness `c04::c04_l1_seal_alloc_step` 
///
/// Check for `assertion`: "assertion failed: spy().last.nonce == expected_nonce(&base, seq)"
///
/// # Warning
///
/// Concrete playback tests combined with stubs or contracts is highly
/// experimental, and subject to change.
///
/// The original harness has stubs which are not applied to this test.
/// This may cause a mismatch of non-deterministic values if the stub
/// creates any non-deterministic value.
/// The execution path may also differ, which can be used to refine the stub
/// logic.

#[test]
fn kani_concrete_playback_c04_l1_seal_alloc_step_6402099984011755() {
    let concrete_vals: Vec<Vec<u8>> = vec![
        // 255
        vec![255],
        // 255
        vec![255],
        // 255
        vec![255],
        // 255
        vec![255],
        // 255
        vec![255],
        // 255
        vec![255],
        // 255
        vec![255],
        // 255
        vec![255],
        // 255
        vec![255],
        // 255
        vec![255],
        // 255
        vec![255],
        // 255
        vec![255],
        // 255
        vec![255],
        // 255
        vec![255],
        // 255
        vec![255],
        // 255
        vec![255],
        // 0
        vec![0],
        // 2
        vec![2],
        // 0
        vec![0],
        // 0
        vec![0],
        // 255
        vec![255],
        // 255
        vec![255],
        // 255
        vec![255],
        // 255
        vec![255],
        // 0
        vec![0],
        // 255
        vec![255],
        // 253
        vec![253],
        // 249
        vec![249],
        // 255
        vec![255],
        // 255
        vec![255],
        // 255
        vec![255],
        // 255
        vec![255],
        // 255
        vec![255],
        // 255
        vec![255],
        // 255
        vec![255],
        // 255
        vec![255],
        // 18446744073692774395ul
        vec![251, 255, 255, 254, 255, 255, 255, 255],
        // 0
        vec![0],
        // 0ul
        vec![0, 0, 0, 0, 0, 0, 0, 0],
        // 0
        vec![0],
        // 0
        vec![0],
        // 0
        vec![0],
        // 255
        vec![255],
        // 255
        vec![255],
        // 255
        vec![255],
        // 0ul
        vec![0, 0, 0, 0, 0, 0, 0, 0],
        // 152
        vec![152],
        // 0
        vec![0],
        // 0
        vec![0],
        // 0
        vec![0],
        // 0
        vec![0],
        // 0
        vec![0],
        // 0
        vec![0],
        // 0
        vec![0],
        // 0
        vec![0],
        // 0
        vec![0],
        // 0
        vec![0],
        // 0
        vec![0],
        // 0
        vec![0],
        // 0
        vec![0],
        // 0
        vec![0],
        // 0
        vec![0],
    ];
    kani::concrete_playback_run(concrete_vals, c04_l1_seal_alloc_step);
}
