// {"property": "C04", "harness": "c04::c04_hist_three_seals", "failed_checks": [{"description": "assertion failed: nonces[k] == expected_nonce(&base, seq.wrapping_add(k as u64))", "function": "c04::c04_hist_three_seals", "location": "src/c04.rs:222", "category": "assertion"}], "test_name": "kani_concrete_playback_c04_hist_three_seals_15455677362569629545"}
// replay: ./run.py --replay /verif/replay/cases/C04-c04_hist_three_seals.rs
/// Test generated for harness `c04::c04_hist_three_seals` 
///
/// Check for `assertion`: "assertion failed: nonces[k] == expected_nonce(&base, seq.wrapping_add(k as u64))"
///
/// # Warning
///
/// Concrete playback tests combined with stubs or contracts is highly
/// experimental, and subject to change.
///
/// The original harness has stubs which are not applied to this test.
/// This may cause a mismatch of non-deterministic values if the stub
/// creates any non-deterministic value.
/// The execution path may also differ, which can be used to refine the stub
/// logic.

#[test]
fn kani_concrete_playback_c04_hist_three_seals_15455677362569629545() {
    let concrete_vals: Vec<Vec<u8>> = vec![
        // 0
        vec![0],
        // 0
        vec![0],
        // 0
        vec![0],
        // 0
        vec![0],
        // 0
        vec![0],
        // 0
        vec![0],
        // 0
        vec![0],
        // 0
        vec![0],
        // 0
        vec![0],
        // 0
        vec![0],
        // 0
        vec![0],
        // 0
        vec![0],
        // 0
        vec![0],
        // 0
        vec![0],
        // 0
        vec![0],
        // 0
        vec![0],
        // 128
        vec![128],
        // 128
        vec![128],
        // 0
        vec![0],
        // 128
        vec![128],
        // 127
        vec![127],
        // 48
        vec![48],
        // 82
        vec![82],
        // 144
        vec![144],
        // 55
        vec![55],
        // 127
        vec![127],
        // 56
        vec![56],
        // 254
        vec![254],
        // 0
        vec![0],
        // 0
        vec![0],
        // 0
        vec![0],
        // 0
        vec![0],
        // 0
        vec![0],
        // 0
        vec![0],
        // 0
        vec![0],
        // 0
        vec![0],
        // 18410715275616845822ul
        vec![254, 255, 255, 191, 255, 255, 127, 255],
        // 0
        vec![0],
        // 0
        vec![0],
    ];
    kani::concrete_playback_run(concrete_vals, c04_hist_three_seals);
}
