// {"property": "C05", "harness": "c05::c05_l1_open_alloc_step", "failed_checks": [{"description": "\"exhausted context must report MessageLimitReached\"", "function": "c05::c05_l1_open_alloc_step", "location": "src/c05.rs:93", "category": "assertion"}], "test_name": "kani_concrete_playback_c05_l1_open_alloc_step_6503829045352377746"}
// replay: ./run.py --replay /verif/replay/cases/C05-c05_l1_open_alloc_step.rs
/// Test generated for harness `c05::c05_l1_open_alloc_step` 
///
/// Check for `assertion`: ""exhausted context must report MessageLimitReached""
///
/// # Warning
///
/// Concrete playback tests combined with stubs or contracts is highly
/// experimental, and subject to change.
///
/// The original harness has stubs which are not applied to this test.
/// This may cause a mismatch of non-deterministic values if the stub
/// creates any non-deterministic value.
/// The execution path may also differ, which can be used to refine the stub
/// logic.

#[test]
fn kani_concrete_playback_c05_l1_open_alloc_step_6503829045352377746() {
    let concrete_vals: Vec<Vec<u8>> = vec![
        // 255
        vec![255],
        // 255
        vec![255],
        // 255
        vec![255],
        // 255
        vec![255],
        // 255
        vec![255],
        // 255
        vec![255],
        // 255
        vec![255],
        // 255
        vec![255],
        // 255
        vec![255],
        // 255
        vec![255],
        // 255
        vec![255],
        // 255
        vec![255],
        // 255
        vec![255],
        // 255
        vec![255],
        // 255
        vec![255],
        // 255
        vec![255],
        // 255
        vec![255],
        // 255
        vec![255],
        // 255
        vec![255],
        // 255
        vec![255],
        // 127
        vec![127],
        // 127
        vec![127],
        // 127
        vec![127],
        // 127
        vec![127],
        // 127
        vec![127],
        // 127
        vec![127],
        // 127
        vec![127],
        // 127
        vec![127],
        // 255
        vec![255],
        // 255
        vec![255],
        // 255
        vec![255],
        // 255
        vec![255],
        // 255
        vec![255],
        // 255
        vec![255],
        // 255
        vec![255],
        // 255
        vec![255],
        // 18446744073709551615ul
        vec![255, 255, 255, 255, 255, 255, 255, 255],
        // 1
        vec![1],
        // 15ul
        vec![15, 0, 0, 0, 0, 0, 0, 0],
        // 0ul
        vec![0, 0, 0, 0, 0, 0, 0, 0],
        // 255
        vec![255],
        // 255
        vec![255],
        // 255
        vec![255],
        // 255
        vec![255],
        // 255
        vec![255],
        // 255
        vec![255],
        // 255
        vec![255],
        // 255
        vec![255],
        // 255
        vec![255],
        // 255
        vec![255],
        // 255
        vec![255],
        // 255
        vec![255],
        // 255
        vec![255],
        // 255
        vec![255],
        // 255
        vec![255],
        // 255
        vec![255],
        // 255
        vec![255],
        // 255
        vec![255],
        // 255
        vec![255],
        // 255
        vec![255],
        // 255
        vec![255],
        // 255
        vec![255],
        // 255
        vec![255],
        // 1
        vec![1],
    ];
    kani::concrete_playback_run(concrete_vals, c05_l1_open_alloc_step);
}
